// Package c04 decides the structural clauses of property C04 (checkpoints are
// atomic with the data, so resume loses and repeats nothing).
package c04

import (
	"fmt"
	"go/ast"
	"go/constant"
	"go/token"
	"go/types"
	"strings"

	"golang.org/x/tools/go/cfg"

	"rscheck/cfgq"
	"rscheck/core"
	"rscheck/driver"
	"rscheck/pat"
	"rscheck/rules/c03"
)

var Def = driver.PropDef{
	ID: "C04",
	Explanation: "Code-shape preconditions of crash consistency, checked on every path of sendFunc, parseSourceCommand, DbSyncer.Sync, sendPSyncCmd and common.SendPSyncContinue: " +
		"R1 transactional envelope (on the batched paths MULTI precedes every other Send, the offset HSET follows the data, EXEC follows the offset HSET and nothing is sent after it, one Flush after EXEC, one connection, every Send/Flush error is fatal, the only unbatched case is resume off or a lone ping, checkpoint key/field/value arguments); " +
		"R2 offset provenance (the stored offset is cachedTunnel[len-1].Offset; every enqueue stamps ds.sourceOffset + this iteration's decoder position; no goroutine writes ds.sourceOffset while the parser reads it); " +
		"R3 one database per batch (runIdMap keyed by the last command's Db; SELECT is a flushing barrier: barrier-before-append and the automaton's select rows, strict; injected SELECTs are barrier keys or only exist in fixed target-db mode); " +
		"R5 resume wiring (LoadCheckpoint results flow to the PSYNC run id, ds.sourceOffset and ds.startDbId without being overwritten; sendPSyncCmd stores the offset SendPSyncContinue returns; SendPSyncContinue sends offset+1 unless -1 and returns the unincremented offset on CONTINUE; the start database is enqueued first); " +
		"R6 filtered stretch (every enqueue of the parser loop lies behind tests that found every drop flag -- above all the database verdict of the last SELECT -- false since the flag was last written: nothing is forwarded, and no checkpoint offset stamped, inside a filtered stretch of the stream); " +
		"R7 database tag (the Db tag of every command enqueued in the parser loop -- the key of the sender's run-id bookkeeping -- is, on every path, the number of a forwarded SELECT, ds.startDbId, or a value that is no database number: a constant database number, or the zero value of a declaration, never reaches an enqueue unless ds.startDbId is known to be that number).",
	NotDecided: "the crash-consistency theorem itself (dataset at every cut = history up to the stored offset): it needs the target's MULTI/EXEC semantics and a model of partial delivery. R4 (writer/reader agreement of the checkpoint field names) is decided under C14.R1; only the writer's name construction is checked here.",
	Trusted:    []string{"go/parser, go/types, go/cfg (x/tools v0.29.0)", "Redis MULTI/EXEC atomicity", "redigo Conn.Send/Flush preserve call order on one connection"},
	Run:        Run,
}

func Run(c *core.Ctx) {
	if c.Pkg(c03.DbSync) == nil {
		c.Undecidedf("anchor", c03.DbSync, token.NoPos, "package not loaded")
		return
	}
	s := c03.AnalyseSender(c)
	p := c03.AnalyseParser(c)
	var env *envelope
	if s != nil {
		env = r1(c, s)
	}
	r2(c, s, p, env)
	if s != nil {
		r3(c, s, p, env)
	}
	r5(c, p)
	if p != nil {
		// R6: no command is forwarded (and no checkpoint offset stamped) while a filter verdict says drop
		c03.VerdictHonoured(c, p, "R6.filtered-stretch")
		c03.Expect(c, "R6.filtered-stretch", 1)
		// R7: the database tag of a queued command is never a database number nobody selected
		r7(c, p)
	}
	c03.Expect(c, "R1.envelope", 25)
	c03.Expect(c, "R2.offset", 8)
	c03.Expect(c, "R3.one-db", 4)
	c03.Expect(c, "R3.barrier", 2)
	c03.Expect(c, "R3.automaton", 22)
	c03.Expect(c, "R5.resume", 16)
}

// ---------------------------------------------------------------------------
// R1 envelope

type envelope struct {
	s         *c03.Sender
	x         *c03.XGraph  // sendFunc with the helpers of the package inlined
	nb        types.Object // the needBatch variable (nil: unconditional envelope)
	nbFalse   func(c *c03.XCtx, b *cfg.Block, succ int) bool
	multi     c03.XPoint
	exec      c03.XPoint
	offHset   c03.XPoint
	rangePt   c03.XPoint
	offCall   *c03.SendSite // arguments in sendFunc's vocabulary
	hsets     []*c03.SendSite
	isMulti   func(c03.XNode) bool
	isExec    func(c03.XNode) bool
	isOffHset func(c03.XNode) bool
}

// mentionsConst: e (after chasing locals) mentions the package-level constant pkgPath.name.
// fieldName resolves the field-name argument of an HSET through a table of
// names (`names[utils.CheckpointRunId]`, see c03.TableRead) when there is one.
func fieldName(info *types.Info, s *c03.Sender, scope ast.Node, arg ast.Expr) ast.Expr {
	if o, ok := c03.SoleOrigin(info, scope, arg); ok && o.Expr != nil && o.Op == 0 && !o.Range && o.Res < 0 {
		if v := c03.TableRead(info, s.Fn.Decl, o.Expr); v != nil {
			return v
		}
	} else if v := c03.TableRead(info, s.Fn.Decl, arg); v != nil {
		return v
	}
	return arg
}

// runIdStored: the run id the sender writes into every checkpoint is ds.runId.
// Sync must set it from the run id sendPSyncCmd returned on every path that
// leads from a successful PSYNC into the incremental phase -- FULLRESYNC and
// CONTINUE alike: a new process starts with an empty ds.runId.
func runIdStored(c *core.Ctx, rule string, psync *core.Fn) {
	sp := c03.NewSyncSpan(c)
	if sp == nil {
		return
	}
	const key = "Sync/runid-stored"
	ws := c03.FieldWrites(c, c03.Syncer, "runId")
	elsewhere := false
	var inSync []c03.FieldWrite
	for _, w := range ws {
		if w.In.Lit == nil && w.In.Decl == sp.Fn.Decl {
			inSync = append(inSync, w)
		} else {
			elsewhere = true
		}
	}
	if len(ws) == 0 {
		c.Failf(rule, key, sp.Fn.Decl.Pos(), "ds.runId is never set: every checkpoint stores an empty run id, so a restart sends PSYNC with an unknown run id and the source answers FULLRESYNC (the stored offset is useless)")
		return
	}
	sets := func(n ast.Node) bool {
		return c03.InCallee(c, sp.Info, n, func(i *types.Info, m ast.Node) bool {
			as, ok := m.(*ast.AssignStmt)
			if !ok {
				return false
			}
			for _, l := range as.Lhs {
				if core.IsFieldNamed(i, l, c03.Syncer, "runId") {
					return true
				}
			}
			return false
		})
	}
	w := sp.Skips(sets)
	switch {
	case w == nil:
		// and what is stored is the run id the PSYNC returned
		good := len(inSync) > 0 || elsewhere
		for _, fw := range inSync {
			ok := false
			if fw.Rhs != nil {
				for _, o := range c03.Origins(sp.Info, sp.Fn.Decl, fw.Rhs) {
					if call, isCall := ast.Unparen(o.Expr).(*ast.CallExpr); isCall && o.Expr != nil && core.CalleeFunc(sp.Info, call) == psync.Obj && o.Res == 3 {
						ok = true
					}
				}
			}
			good = good && ok
		}
		if good {
			c.Okf(rule, key, sp.Fn.Decl.Pos(), "ds.runId is set on every path from the PSYNC into the incremental phase")
		} else {
			c.Undecidedf(rule, key, sp.Fn.Decl.Pos(), "ds.runId is set before the incremental phase, but not recognisably from the run id sendPSyncCmd returned")
		}
	case elsewhere || !sp.Direct:
		c.Undecidedf(rule, key, sp.Fn.Decl.Pos(), "a path from the PSYNC into the incremental phase does not set ds.runId in Sync; it is also written elsewhere / the phase starts in a helper")
	default:
		c.Check(rule, key, inSync[0].Stmt.Pos(), false, "ds.runId (the run id the sender writes into every checkpoint) is not set on every path from a successful sendPSyncCmd into the incremental phase: on that path (e.g. PSYNC answered with +CONTINUE in a fresh process) the checkpoint's run id field is overwritten with a stale or empty value, so the next restart sends PSYNC with a run id the source does not know and gets FULLRESYNC: the stored offset is useless and resume is lost", w...)
	}
}

func anyLhs(as *ast.AssignStmt, pred func(ast.Expr) bool) bool {
	for _, l := range as.Lhs {
		if pred(l) {
			return true
		}
	}
	return false
}

func mentionsConst(c *core.Ctx, info *types.Info, scope ast.Node, e ast.Expr, name string) bool {
	found := false
	for _, o := range c03.Origins(info, scope, e) {
		if o.Expr == nil {
			continue
		}
		ast.Inspect(o.Expr, func(n ast.Node) bool {
			if id, ok := n.(*ast.Ident); ok && id.Name == name {
				if k, ok := core.ObjOf(info, id).(*types.Const); ok && k.Pkg() != nil && strings.HasSuffix(k.Pkg().Path(), c03.Common) {
					found = true
				}
			}
			return true
		})
	}
	return found
}

func r1(c *core.Ctx, s *c03.Sender) *envelope {
	const rule = "R1.envelope"
	info := s.Info
	scope := s.Fn.Decl.Body
	x := s.X
	e := &envelope{s: s, x: x, rangePt: s.RangeX}
	cmdPts := func(name string) []c03.XPoint {
		return x.Points(func(n c03.XNode) bool { return x.XCmd(n, name) != nil })
	}
	ms, es, hs := cmdPts("multi"), cmdPts("exec"), cmdPts("hset")
	if len(ms) != 1 || len(es) != 1 || len(hs) == 0 {
		elsewhere := false
		inlined := map[*ast.BlockStmt]bool{} // bodies that are part of the expansion
		for _, pt := range x.Points(func(c03.XNode) bool { return true }) {
			inlined[pt.C.G.Body] = true
		}
		for _, b := range c03.AllBodies(c) {
			if b.Pkg.PkgPath != s.Fn.Pkg.PkgPath || b.Lit == s.Lit || b.Lit == nil && inlined[b.Decl.Body] || b.Lit != nil && inlined[b.Lit.Body] {
				continue
			}
			core.Inspect(b.Root(), func(n ast.Node) bool {
				call, ok := n.(*ast.CallExpr)
				if !ok || b.Lit == nil && b.Decl == s.Fn.Decl && s.InFlush(call) {
					return true
				}
				if site := c03.SendOf(b.Pkg.TypesInfo, call); site != nil && len(site.Args) > 0 {
					if v, isC := core.StringConst(b.Pkg.TypesInfo, site.Args[0]); isC && (strings.EqualFold(v, "multi") || strings.EqualFold(v, "exec")) {
						elsewhere = true
					}
				}
				return true
			})
		}
		if elsewhere {
			c.Undecidedf(rule, "shape", s.Lit.Pos(), "MULTI/EXEC are sent outside sendFunc and the helpers it calls; the rule cannot follow them")
		} else if len(ms) == 0 || len(es) == 0 || len(hs) == 0 {
			c.Failf(rule, "shape", s.Lit.Pos(), "sendFunc sends %d MULTI, %d EXEC and %d checkpoint HSETs: without the MULTI ... HSET offset ... EXEC envelope a cut connection leaves data applied without (or a checkpoint without) its counterpart", len(ms), len(es), len(hs))
		} else {
			c.Undecidedf(rule, "shape", s.Lit.Pos(), "sendFunc sends %d MULTI and %d EXEC: the rule knows one envelope per batch", len(ms), len(es))
		}
		return nil
	}
	e.multi, e.exec = ms[0], es[0]
	e.isMulti, e.isExec = e.multi.Is(), e.exec.Is()
	// classify the HSETs by the checkpoint constant their field name is built from
	var offs []c03.XPoint
	for _, hp := range hs {
		call := x.XCmd(hp.Node(), "hset")
		e.hsets = append(e.hsets, call)
		if len(call.Args) == 4 && mentionsConst(c, info, scope, fieldName(info, s, scope, call.Args[2]), "CheckpointOffset") {
			offs = append(offs, hp)
			e.offCall = call
		}
	}
	if len(offs) != 1 {
		c.Undecidedf(rule, "offset-hset", s.Lit.Pos(), "expected one HSET whose field name is built from CheckpointOffset, found %d", len(offs))
		return nil
	}
	e.offHset = offs[0]
	e.isOffHset = e.offHset.Is()

	// the batching flag: a bool local of sendFunc whose true edge is the only way to MULTI
	g := s.LG
	cands := map[types.Object]bool{}
	for _, b := range g.CFG.Blocks {
		for si := range b.Succs {
			for _, ft := range s.LFl.Facts(b, si) {
				if o, val := c03.BoolFact(info, ft); o != nil && val {
					cands[o] = true
				}
			}
		}
	}
	// ... or tested only inside closures of sendFunc (the variable is the same object there)
	seenCtx := map[*c03.XCtx]bool{x.Root: true}
	for _, pt := range x.Points(func(c03.XNode) bool { return true }) {
		cx := pt.C
		if seenCtx[cx] || cx.Fl == nil || cx.H == nil || cx.H.Lit == nil {
			continue
		}
		seenCtx[cx] = true
		for _, b := range cx.G.CFG.Blocks {
			for si := range b.Succs {
				for _, ft := range cx.Fl.Facts(b, si) {
					if o, _ := c03.BoolFact(cx.Info, ft); o != nil && s.Lit.Pos() <= o.Pos() && o.Pos() < s.Lit.End() {
						cands[o] = true
					}
				}
			}
		}
	}
	// an edge, in any frame of the expansion, that establishes o == want: o is a local of the
	// closure, so closures bound to locals see the same variable; helper functions see it through
	// the parameter the call binds to it
	rootEdge := func(o types.Object, want bool) func(*c03.XCtx, *cfg.Block, int) bool {
		return func(cx *c03.XCtx, b *cfg.Block, i int) bool {
			fl, ci := s.LFl, info
			if cx != x.Root {
				fl, ci = cx.Fl, cx.Info
			}
			if fl == nil {
				return false
			}
			return fl.Edge(func(ft cfgq.Fact) bool {
				ob, val := c03.BoolFact(ci, ft)
				if ob == nil || val != want {
					return false
				}
				if ob == o {
					return true
				}
				if cx == x.Root {
					return false
				}
				return c03.IsObj(info, o)(x.Resolve(cx, ft.Expr))
			})(b, i)
		}
	}
	for o := range cands {
		if x.Path(c03.XQuery{AvoidEdge: rootEdge(o, true), Target: e.isMulti}) == nil {
			e.nb = o
		}
	}
	e.nbFalse = func(*c03.XCtx, *cfg.Block, int) bool { return false }
	if e.nb != nil {
		e.nbFalse = rootEdge(e.nb, false)
		// the flag is not rewritten once the envelope has begun
		isSet := func(n c03.XNode) bool {
			as, ok := n.N.(*ast.AssignStmt)
			if !ok || n.C != x.Root {
				return false
			}
			for _, l := range as.Lhs {
				if c03.IsObj(info, e.nb)(l) {
					return true
				}
			}
			return false
		}
		w := x.Path(c03.XQuery{From: e.multi, After: true, Target: isSet})
		if w == nil {
			w = x.Path(c03.XQuery{From: e.rangePt, After: true, Target: isSet})
		}
		if w != nil {
			c.Undecidedf(rule, "flag-stable", s.Lit.Pos(), "the batching flag is reassigned after the envelope began; edge facts are not reliable")
			return nil
		}
		exemption(c, s, e)
		flagPerFlush(c, s, e)
	}
	// a path that runs through `flag = false` (and the flag is not rewritten once the envelope began,
	// see flag-stable) is not a batched path either
	clearsFlag := func(n c03.XNode) bool {
		as, ok := n.N.(*ast.AssignStmt)
		if !ok || e.nb == nil || len(as.Lhs) != len(as.Rhs) {
			return false
		}
		for i, l := range as.Lhs {
			if c03.IsObj(n.C.Info, e.nb)(l) {
				if tv, ok := n.C.Info.Types[as.Rhs[i]]; ok && tv.Value != nil && tv.Value.String() == "false" {
					return true
				}
			}
		}
		return false
	}
	q := func(query c03.XQuery) []string {
		query.AvoidEdge = e.nbFalse
		if av := query.Avoid; av != nil {
			query.Avoid = func(n c03.XNode) bool { return av(n) || clearsFlag(n) }
		} else {
			query.Avoid = clearsFlag
		}
		return x.Path(query)
	}
	pos := func(p c03.XPoint) token.Pos { return p.P.Node().Pos() }
	notMulti := func(n c03.XNode) bool { return c03.XIsSend(n) && !e.isMulti(n) }
	w := q(c03.XQuery{Avoid: e.isMulti, Target: notMulti})
	c.Check(rule, "multi-first", pos(e.multi), w == nil,
		"on the batched paths MULTI must be sent before every other command of the batch: whatever is sent earlier is applied outside the transaction, so a cut before EXEC leaves it applied without its checkpoint and the restart applies it again", w...)
	w = q(c03.XQuery{From: e.rangePt, After: true, Avoid: e.isOffHset, TargetExit: true})
	c.Check(rule, "offset-after-data", pos(e.offHset), w == nil,
		"on the batched paths every path from the data Sends to the end of sendFunc must send HSET <checkpoint> <source>-offset: otherwise the batch commits without advancing the checkpoint and the restart re-applies it", w...)
	w = q(c03.XQuery{From: e.rangePt, After: true, Avoid: e.isOffHset, Target: e.isExec})
	c.Check(rule, "exec-after-offset", pos(e.exec), w == nil,
		"EXEC must not be reachable from the data Sends without the offset HSET in between: the transaction would commit the data without the checkpoint", w...)
	w = x.Path(c03.XQuery{From: e.offHset, After: true, Avoid: e.isExec, TargetExit: true})
	c.Check(rule, "exec-closes", pos(e.exec), w == nil,
		"after the offset HSET every path must send EXEC: an open MULTI swallows the following batches into one never-committed transaction", w...)
	w = x.Path(c03.XQuery{From: e.exec, After: true, Target: c03.XIsSend})
	c.Check(rule, "nothing-after-exec", pos(e.exec), w == nil,
		"no command may be sent after EXEC in the same batch: it runs outside the transaction, so a cut between EXEC and it separates data and checkpoint (e.g. an offset HSET after EXEC: data committed, offset not: the restart applies the batch twice)", w...)
	w = x.Path(c03.XQuery{From: e.exec, After: true, Avoid: c03.XIsFlush, TargetExit: true})
	c.Check(rule, "flush-after-exec", pos(e.exec), w == nil, "the envelope must be flushed after EXEC on every path", w...)
	for i, fp := range x.Points(c03.XIsFlush) {
		w := x.Path(c03.XQuery{From: fp, After: true, Target: c03.XIsFlush})
		c.Check(rule, fmt.Sprintf("single-flush#%d", i+1), pos(fp), w == nil, "one Flush per batch", w...)
	}
	// one connection
	same := true
	for _, pt := range x.Points(func(n c03.XNode) bool { return true }) {
		n := pt.Node()
		for _, call := range cfgq.ExecCalls(n.N) {
			for _, m := range []string{"Flush", "Do"} {
				if cx, ok := c03.ConnMethod(n.C.Info, call, m); ok && !c03.SameVar(info, s.Fn.Decl, s.Conn)(x.Resolve(n.C, cx)) {
					same = false
				}
			}
			if site := c03.SendOf(n.C.Info, call); site != nil && !c03.SameVar(info, s.Fn.Decl, s.Conn)(x.Resolve(n.C, site.Conn)) {
				same = false
			}
		}
	}
	c.Check(rule, "one-connection", s.Lit.Pos(), same, "MULTI, the data, the checkpoint HSETs, EXEC and Flush must all use the same connection value: a transaction does not span connections")
	errorFatal(c, s, x)
	hsetArgs(c, s, e)
	return e
}

// exemption: the flag is false only when resume is off or the batch is a lone ping.
// Every assignment `flag = E` under its guard G (the if / else / tagless-switch
// conditions that lead to it) is read as a boolean formula over three atoms --
// R: ds.enableResumeFromBreakPoint, N: <count> == 1, P: last.Cmd == "ping" --
// and (G && !E) => (!R || (N && P)) is checked on the truth table. Anything
// that is not built from these atoms with !, &&, ||, ==, != is UNDECIDED.
func exemption(c *core.Ctx, s *c03.Sender, e *envelope) {
	const rule = "R1.envelope"
	info := s.Info
	type val struct{ r, n, p bool }
	var eval func(x ast.Expr, v val, depth int) (bool, bool)
	eval = func(x ast.Expr, v val, depth int) (bool, bool) {
		x = ast.Unparen(x)
		if tv, ok := info.Types[x]; ok && tv.Value != nil && tv.Value.Kind() == constant.Bool {
			return constant.BoolVal(tv.Value), true
		}
		switch y := x.(type) {
		case *ast.UnaryExpr:
			if y.Op == token.NOT {
				b, ok := eval(y.X, v, depth)
				return !b, ok
			}
		case *ast.BinaryExpr:
			switch y.Op {
			case token.LAND, token.LOR:
				a, ok1 := eval(y.X, v, depth)
				b, ok2 := eval(y.Y, v, depth)
				if !ok1 || !ok2 {
					return false, false
				}
				if y.Op == token.LAND {
					return a && b, true
				}
				return a || b, true
			case token.EQL, token.NEQ:
				l, r := ast.Unparen(y.X), ast.Unparen(y.Y)
				for k := 0; k < 2; k++ {
					if n, isC := core.IntConst(info, r); isC && n == 1 {
						if _, lc := core.IntConst(info, l); !lc {
							if bt, ok := info.TypeOf(l).Underlying().(*types.Basic); ok && bt.Info()&types.IsInteger != 0 {
								return v.n == (y.Op == token.EQL), true
							}
						}
					}
					if sv, isS := core.StringConst(info, r); isS && sv == "ping" {
						if sel, ok := l.(*ast.SelectorExpr); ok && sel.Sel.Name == "Cmd" {
							if _, isLast := lastOfBatch(info, s, sel.X); isLast || isLastIndex(info, s, sel.X) {
								return v.p == (y.Op == token.EQL), true
							}
						}
					}
					l, r = r, l
				}
			}
		case *ast.SelectorExpr:
			if y.Sel.Name == "enableResumeFromBreakPoint" && c03.FieldIs(info, y, c03.Syncer, "enableResumeFromBreakPoint") {
				return v.r, true
			}
		case *ast.Ident:
			// a named condition
			if depth > 0 {
				if o, ok := c03.SoleOrigin(info, s.Lit, y); ok && o.Expr != nil && o.Op == 0 && !o.Range && o.Res < 0 && !o.Param && !c03.IsObj(info, e.nb)(y) {
					return eval(o.Expr, v, depth-1)
				}
			}
		}
		return false, false
	}
	n := 0
	core.Inspect(s.Lit, func(m ast.Node) bool {
		as, ok := m.(*ast.AssignStmt)
		if !ok || len(as.Lhs) != 1 || len(as.Rhs) != 1 || !c03.IsObj(info, e.nb)(as.Lhs[0]) {
			return true
		}
		if v, ok := info.Types[as.Rhs[0]]; ok && v.Value != nil && v.Value.String() == "true" {
			return true
		}
		n++
		// the guard: conditions of the enclosing if / else arms and tagless switch cases
		var guard []ast.Expr
		neg := func(x ast.Expr) ast.Expr { return &ast.UnaryExpr{Op: token.NOT, X: &ast.ParenExpr{X: x}} }
		path := core.PathTo(s.Lit, as)
		for i := 0; i+1 < len(path); i++ {
			switch p := path[i].(type) {
			case *ast.IfStmt:
				if path[i+1] == ast.Node(p.Body) {
					guard = append(guard, p.Cond)
				} else if p.Else != nil && path[i+1] == ast.Node(p.Else) {
					guard = append(guard, neg(p.Cond))
				}
			case *ast.SwitchStmt:
				if p.Tag != nil || i+2 >= len(path) {
					continue
				}
				cc, ok := path[i+2].(*ast.CaseClause)
				if !ok {
					continue
				}
				for _, cl := range p.Body.List {
					o := cl.(*ast.CaseClause)
					var cond ast.Expr
					for _, ce := range o.List {
						if cond == nil {
							cond = ce
						} else {
							cond = &ast.BinaryExpr{X: cond, Op: token.LOR, Y: ce}
						}
					}
					if o == cc {
						if cond != nil {
							guard = append(guard, cond)
						}
						if cond != nil {
							break
						}
						continue
					}
					if cond != nil && (cc.List == nil || o.Pos() < cc.Pos()) {
						guard = append(guard, neg(cond)) // earlier cases (all cases for default) did not match
					}
				}
			}
		}
		good, readable, guardReadable := true, true, true
		witness := ""
		for _, r := range []bool{false, true} {
			for _, nn := range []bool{false, true} {
				for _, pp := range []bool{false, true} {
					v := val{r, nn, pp}
					g := true
					for _, gx := range guard {
						b, ok := eval(gx, v, 3)
						if !ok {
							// a guard the rule cannot read may hold or not: assume it holds (stronger requirement)
							b = true
							guardReadable = false
						}
						g = g && b
					}
					ev, ok := eval(as.Rhs[0], v, 3)
					if !ok {
						readable = false
						continue
					}
					if g && !ev && !(!v.r || (v.n && v.p)) {
						good = false
						witness = fmt.Sprintf("resume enabled, batch of %s command(s), last command %s", map[bool]string{true: "one", false: "several"}[v.n], map[bool]string{true: "ping", false: "not ping"}[v.p])
					}
				}
			}
		}
		switch {
		case !readable:
			c.Undecidedf(rule, "unbatched-only-for-ping", as.Pos(), "the batching flag is computed by `%s`", c.Src(as))
		case good:
			c.Okf(rule, "unbatched-only-for-ping", as.Pos(), "the envelope is omitted only when resume is disabled or the batch is a single ping")
		case guardReadable:
			c.Failf(rule, "unbatched-only-for-ping", as.Pos(), "`%s` switches the MULTI/EXEC + checkpoint envelope off in a case that is neither 'resume disabled' nor 'the batch is a lone ping' (%s): that batch is applied without a transaction and without moving the checkpoint, so a cut inside or after it restarts from the previous offset and applies its commands again", c.Src(as), witness)
		default:
			c.Undecidedf(rule, "unbatched-only-for-ping", as.Pos(), "the condition under which the envelope is omitted is not the known `!resume || (count == 1 && last.Cmd == \"ping\")`")
		}
		return true
	})
	if n == 0 {
		c.Okf(rule, "unbatched-only-for-ping", s.Lit.Pos(), "the batching flag is never cleared")
	}
}

// flagPerFlush: the batching flag describes ONE batch. When the variable lives
// outside the flush routine its value survives from one flush to the next, so
// every flush must assign it before reading it. A flag that is only ever
// cleared inside the routine (and set once, outside the receive loop) stays
// off for the rest of the process after the first exempt batch.
func flagPerFlush(c *core.Ctx, s *c03.Sender, e *envelope) {
	const rule, key = "R1.envelope", "flag-per-batch"
	info := s.Info
	if e.nb == nil || s.Lit.Pos() <= e.nb.Pos() && e.nb.Pos() < s.Lit.End() {
		return // declared inside the routine: fresh for every batch
	}
	isWrite := func(n ast.Node) bool {
		as, ok := n.(*ast.AssignStmt)
		if !ok {
			return false
		}
		for _, l := range as.Lhs {
			if c03.IsObj(info, e.nb)(l) {
				return true
			}
		}
		return false
	}
	reads := func(n ast.Node) bool { return !isWrite(n) && core.Mentions(info, n, e.nb) }
	w := s.LG.Path(cfgq.Query{Avoid: isWrite, Target: reads})
	if w == nil {
		c.Okf(rule, key, s.Lit.Pos(), "the batching flag is assigned in every flush before it is read")
		return
	}
	// every write other than the declaration clears the flag?
	onlyCleared, nw := true, 0
	core.InspectAll(s.Fn.Decl.Body, func(m ast.Node) bool {
		as, ok := m.(*ast.AssignStmt)
		if !ok || len(as.Lhs) != len(as.Rhs) {
			return true
		}
		for i, l := range as.Lhs {
			id, ok := ast.Unparen(l).(*ast.Ident)
			if !ok || core.ObjOf(info, id) != e.nb || info.Defs[id] == e.nb {
				continue
			}
			nw++
			if tv, ok := info.Types[as.Rhs[i]]; !ok || tv.Value == nil || tv.Value.String() != "false" {
				onlyCleared = false
			}
		}
		return true
	})
	if onlyCleared && nw > 0 {
		c.Check(rule, key, s.Lit.Pos(), false, fmt.Sprintf("the batching flag `%s` lives outside the flush routine and is only ever cleared there: after the first exempt batch (a lone keep-alive PING flushed by the ticker) it stays false, so every later batch is sent without MULTI/EXEC and without its checkpoint; the checkpoint on the target freezes and a restart applies everything after it a second time", e.nb.Name()), w...)
		return
	}
	c.Undecidedf(rule, key, s.Lit.Pos(), "the batching flag `%s` is declared outside the flush routine and can be read there before it is assigned: its value may be left over from an earlier batch", e.nb.Name())
}

// isLastIndex: e is batch[len(batch)-1] written out.
func isLastIndex(info *types.Info, s *c03.Sender, e ast.Expr) bool {
	ix, ok := ast.Unparen(e).(*ast.IndexExpr)
	if !ok || !c03.IsObj(info, s.Tunnel)(ix.X) {
		return false
	}
	idx := ast.Unparen(ix.Index)
	if o, ok := c03.SoleOrigin(info, s.Lit, idx); ok && o.Expr != nil && o.Op == 0 && !o.Range && o.Res < 0 {
		if _, isID := idx.(*ast.Ident); isID {
			idx = ast.Unparen(o.Expr)
		}
	}
	be, ok := idx.(*ast.BinaryExpr)
	if !ok || be.Op != token.SUB {
		return false
	}
	if v, isC := core.IntConst(info, be.Y); !isC || v != 1 {
		return false
	}
	lx := ast.Unparen(be.X)
	if o, ok := c03.SoleOrigin(info, s.Lit, lx); ok && o.Expr != nil && o.Op == 0 && !o.Range && o.Res < 0 {
		if _, isID := lx.(*ast.Ident); isID {
			lx = ast.Unparen(o.Expr)
		}
	}
	call, ok := lx.(*ast.CallExpr)
	if !ok || len(call.Args) != 1 || !c03.IsObj(info, s.Tunnel)(call.Args[0]) {
		return false
	}
	b, ok := core.Callee(info, call).(*types.Builtin)
	return ok && b.Name() == "len"
}

// lastOfBatch: e (a local or expression) denotes batch[len(batch)-1].
func lastOfBatch(info *types.Info, s *c03.Sender, e ast.Expr) (ast.Expr, bool) {
	o, ok := c03.SoleOrigin(info, s.Lit, e)
	if !ok || o.Expr == nil || o.Op != 0 || o.Range || o.Res > 0 {
		return nil, false
	}
	ix, ok := ast.Unparen(o.Expr).(*ast.IndexExpr)
	if !ok || !c03.IsObj(info, s.Tunnel)(ix.X) {
		return o.Expr, false
	}
	io, ok := c03.SoleOrigin(info, s.Lit, ix.Index)
	if !ok || io.Expr == nil {
		return o.Expr, false
	}
	be, ok := ast.Unparen(io.Expr).(*ast.BinaryExpr)
	if !ok || be.Op != token.SUB {
		return o.Expr, false
	}
	if v, isC := core.IntConst(info, be.Y); !isC || v != 1 {
		return o.Expr, false
	}
	lo, ok := c03.SoleOrigin(info, s.Lit, be.X)
	if !ok || lo.Expr == nil {
		return o.Expr, false
	}
	call, ok := ast.Unparen(lo.Expr).(*ast.CallExpr)
	if !ok || len(call.Args) != 1 || !c03.IsObj(info, s.Tunnel)(call.Args[0]) {
		return o.Expr, false
	}
	if b, ok := core.Callee(info, call).(*types.Builtin); !ok || b.Name() != "len" {
		return o.Expr, false
	}
	return o.Expr, true
}

// errorFatal: every Send/Flush error of the closure (and of the helpers it calls) ends the goroutine.
func errorFatal(c *core.Ctx, s *c03.Sender, x *c03.XGraph) {
	const rule = "R1.envelope"
	k := 0
	for _, pt := range x.Points(func(n c03.XNode) bool { return c03.XIsSend(n) || c03.XIsFlush(n) }) {
		k++
		key := fmt.Sprintf("error-fatal#%d", k)
		cx, node := pt.C, pt.P.Node()
		info := cx.Info
		fatalInside, lost := false, false
		for _, call := range cfgq.ExecCalls(node) {
			if site := c03.SendOf(info, call); site != nil {
				fatalInside = fatalInside || site.Fatal
				lost = lost || site.Lost
			}
		}
		if lost {
			c.Failf(rule, key, node.Pos(), "`%s` sends through a wrapper that carries on after a failed Send without reporting it: the batch is cleared and lastCommittedOffset advanced although the target never received it (commands lost on the next restart)", c.Src(node))
			continue
		}
		if fatalInside {
			c.Okf(rule, key, node.Pos(), "the forwarding wrapper ends the sender itself when Send fails")
			continue
		}
		as, ok := node.(*ast.AssignStmt)
		if !ok || len(as.Lhs) != 1 {
			c.Failf(rule, key, node.Pos(), "`%s` discards the error of the connection: after a failed Send/Flush the batch is cleared and lastCommittedOffset advanced although the target never received it (commands lost on the next restart)", c.Src(node))
			continue
		}
		ev := core.ObjOf(info, as.Lhs[0])
		isNil := func(ft cfgq.Fact) bool {
			eq, ok := c03.EqFact(ft, c03.IsObj(info, ev), func(x ast.Expr) bool { return core.IsNil(info, x) })
			return ok && eq
		}
		handed := func(n ast.Node) bool { // err passed to a function that is not a logger: may be a must()-style helper
			for _, call := range cfgq.ExecCalls(n) {
				f := core.CalleeFunc(info, call)
				if f == nil || f.Pkg() == nil || f.Pkg().Name() == "log" || f.Pkg().Path() == "fmt" {
					continue
				}
				for _, a := range call.Args {
					if c03.IsObj(info, ev)(a) {
						return true
					}
				}
			}
			return false
		}
		edge := cx.Fl.Edge(isNil)
		w := x.Path(c03.XQuery{From: pt, After: true, TargetExit: true,
			AvoidEdge: func(c2 *c03.XCtx, b *cfg.Block, i int) bool { return c2 == cx && edge(b, i) },
			Avoid: func(n c03.XNode) bool {
				return n.C == cx && n.N != node && (assigns(info, n.N, ev) || handed(n.N)) || returnsErr(n, cx, ev)
			}})
		c.Check(rule, key, as.Pos(), w == nil && ev != nil,
			"a Send/Flush error must end the sender (no-return log call): on this path sendFunc carries on after a failed write, clears the batch and advances lastCommittedOffset, so the commands are lost on restart", w...)
	}
}

// returnsErr: the node returns the error variable ev from helper frame cx (its caller judges it; not followed).
func returnsErr(n c03.XNode, cx *c03.XCtx, ev types.Object) bool {
	ret, ok := n.N.(*ast.ReturnStmt)
	if !ok || n.C != cx || cx.Parent == nil {
		return false
	}
	for _, r := range ret.Results {
		if c03.IsObj(cx.Info, ev)(r) {
			return true
		}
	}
	return false
}

func assigns(info *types.Info, n ast.Node, obj types.Object) bool {
	as, ok := n.(*ast.AssignStmt)
	if !ok {
		return false
	}
	for _, l := range as.Lhs {
		if c03.IsObj(info, obj)(l) {
			return true
		}
	}
	return false
}

// hsetArgs: key, field-name construction and value of the three checkpoint HSETs.
func hsetArgs(c *core.Ctx, s *c03.Sender, e *envelope) {
	const rule = "R1.envelope"
	info := s.Info
	scope := s.Fn.Decl.Body
	for _, call := range e.hsets {
		if len(call.Args) != 4 {
			c.Undecidedf(rule, "hset-shape", call.Pos(), "HSET with %d arguments", len(call.Args)-1)
			continue
		}
		var role, want string
		var okVal, unknownVal bool
		// the field name, looked up through a table of names when there is one (`names[utils.CheckpointRunId]`)
		nameArg := fieldName(info, s, scope, call.Args[2])
		switch {
		case call == e.offCall:
			role, want = "offset", "the batch's offset variable"
			okVal = true // provenance under R2
		case mentionsConst(c, info, scope, nameArg, "CheckpointRunId"):
			role, want = "runid", "ds.runId"
			okVal = leafIs(info, scope, call.Args[3], func(x ast.Expr) bool { return c03.FieldIs(info, x, c03.Syncer, "runId") })
			otherField := false // another field of the syncer (e.g. its id) is recognisably not the run id
			ast.Inspect(call.Args[3], func(m ast.Node) bool {
				if sel, ok := m.(*ast.SelectorExpr); ok && sel.Sel.Name != "runId" && c03.FieldIs(info, sel, c03.Syncer, sel.Sel.Name) {
					otherField = true
				}
				return true
			})
			unknownVal = !okVal && !otherField
		case mentionsConst(c, info, scope, nameArg, "CheckpointVersion"):
			role, want = "version", "utils.FcvCheckpoint.CurrentVersion"
			okVal = leafIs(info, scope, call.Args[3], func(x ast.Expr) bool { return pat.Expr("_u.FcvCheckpoint.CurrentVersion").Match(info, x, nil) != nil })
			_, isConst := core.IntConst(info, call.Args[3])
			unknownVal = !okVal && !isConst
		default:
			c.Undecidedf(rule, "hset-shape", call.Pos(), "HSET `%s` inside the envelope is not one of the three checkpoint fields", c.Src(call.Call))
			continue
		}
		if leafIs(info, scope, call.Args[1], func(x ast.Expr) bool { return c03.FieldIs(info, x, c03.Syncer, "checkpointName") }) {
			c.Okf(rule, "hset-key/"+role, call.Pos(), "the checkpoint HSET writes the hash ds.checkpointName (the key LoadCheckpoint reads)")
		} else {
			c.Undecidedf(rule, "hset-key/"+role, call.Pos(), "the checkpoint HSET writes key `%s`, not ds.checkpointName", c.Src(call.Args[1]))
		}
		if unknownVal {
			c.Undecidedf(rule, "hset-value/"+role, call.Pos(), "cannot trace the %s value `%s` to %s", role, c.Src(call.Args[3]), want)
		} else if okVal {
			c.Okf(rule, "hset-value/"+role, call.Pos(), "value is %s", want)
		} else {
			c.Failf(rule, "hset-value/"+role, call.Pos(), "the %s field stores `%s` instead of %s: resume compares/uses a value the source never announced", role, c.Src(call.Args[3]), want)
		}
		// field name: fmt.Sprintf("%s-%s", ds.node.Source, utils.<const>)
		okName := false
		if o, ok := c03.SoleOrigin(info, scope, nameArg); ok && o.Expr != nil {
			okName = pat.Expr(`fmt.Sprintf("%s-%s", _ds.node.Source, _k)`).Match(info, o.Expr, nil) != nil ||
				pat.Expr(`_ds.node.Source + "-" + _k`).Match(info, o.Expr, nil) != nil ||
				pat.Expr(`fmt.Sprint(_ds.node.Source, "-", _k)`).Match(info, o.Expr, nil) != nil ||
				pat.Expr(`strings.Join([]string{_ds.node.Source, _k}, "-")`).Match(info, o.Expr, nil) != nil
		}
		if okName {
			c.Okf(rule, "hset-field/"+role, call.Pos(), "field name is <source address>-<constant>")
		} else {
			c.Undecidedf(rule, "hset-field/"+role, call.Pos(), "field name `%s` is not built as fmt.Sprintf(\"%%s-%%s\", ds.node.Source, const)", c.Src(call.Args[2]))
		}
	}
}

func constIndex(info *types.Info, e ast.Expr) bool {
	ix, ok := ast.Unparen(e).(*ast.IndexExpr)
	if !ok {
		return false
	}
	_, isC := core.IntConst(info, ix.Index)
	return isC
}

// dropZeroTerms removes constant-zero summands (`x + 0`).
func dropZeroTerms(info *types.Info, e ast.Expr) ast.Expr {
	be, ok := ast.Unparen(e).(*ast.BinaryExpr)
	if !ok || be.Op != token.ADD {
		return e
	}
	x, y := dropZeroTerms(info, be.X), dropZeroTerms(info, be.Y)
	if v, ok := core.IntConst(info, y); ok && v == 0 {
		return x
	}
	if v, ok := core.IntConst(info, x); ok && v == 0 {
		return y
	}
	if x != be.X || y != be.Y {
		return &ast.BinaryExpr{X: x, Op: token.ADD, Y: y}
	}
	return e
}

// leafIs: every non-zero origin of e satisfies pred.
func leafIs(info *types.Info, scope ast.Node, e ast.Expr, pred func(ast.Expr) bool) bool {
	n := 0
	for _, o := range c03.Origins(info, scope, e) {
		if o.Zero {
			continue
		}
		n++
		if o.Expr == nil || o.Op != 0 || o.Range || o.Res > 0 || !pred(o.Expr) {
			return false
		}
	}
	return n > 0
}

// ---------------------------------------------------------------------------
// R2 offset provenance

// offsetOfDequeuedItem: e is a variable of the enclosing function that is
// assigned `<item>.Offset` with <item> the value received from the queue.
func offsetOfDequeuedItem(info *types.Info, s *c03.Sender, e ast.Expr) ast.Node {
	id, ok := ast.Unparen(e).(*ast.Ident)
	if !ok || s.Item == nil {
		return nil
	}
	obj := core.ObjOf(info, id)
	var hit ast.Node
	ast.Inspect(s.Fn.Decl.Body, func(n ast.Node) bool {
		as, ok := n.(*ast.AssignStmt)
		if !ok || len(as.Lhs) != len(as.Rhs) {
			return true
		}
		for i, l := range as.Lhs {
			lid, ok := l.(*ast.Ident)
			if !ok || core.ObjOf(info, lid) != obj {
				continue
			}
			if sel, ok := ast.Unparen(as.Rhs[i]).(*ast.SelectorExpr); ok && sel.Sel.Name == "Offset" {
				if xid, ok := ast.Unparen(sel.X).(*ast.Ident); ok && core.ObjOf(info, xid) == s.Item {
					hit = as
				}
			}
		}
		return true
	})
	return hit
}

func r2(c *core.Ctx, s *c03.Sender, p *c03.Parser, e *envelope) {
	const rule = "R2.offset"
	if s != nil && e != nil {
		info := s.Info
		val := e.offCall.Args[3]
		key := "stored-is-last"
		var defs []c03.Origin
		for _, o := range c03.Origins(info, s.Lit, val) {
			if !o.Zero {
				defs = append(defs, o)
			}
		}
		switch {
		case len(defs) != 1 || defs[0].Expr == nil || defs[0].Op != 0:
			c.Undecidedf(rule, key, e.offCall.Pos(), "the stored offset `%s` has %d definitions; the rule knows one: last.Offset", c.Src(val), len(defs))
		default:
			sel, ok := ast.Unparen(defs[0].Expr).(*ast.SelectorExpr)
			if !ok || sel.Sel.Name != "Offset" || core.NamedTypeName(info.TypeOf(sel.X)) != c03.CmdType {
				if core.MentionsField(info, defs[0].Expr, c03.Syncer, "sourceOffset") {
					c.Failf(rule, key, defs[0].Expr.Pos(), "the checkpoint stores `%s`, the live replication position, not the offset of the last command of this batch: commands parsed but not yet in the batch are skipped on resume", c.Src(defs[0].Expr))
				} else if fromItem := offsetOfDequeuedItem(info, s, defs[0].Expr); fromItem != nil {
					c.Failf(rule, key, fromItem.Pos(), "the checkpoint stores `%s`, which is set from the item most recently taken from the queue (`%s`), not from the last command of the batch being sent: when a barrier command (SELECT/MULTI/EXEC) forces the flush, that item is not in the batch yet, so the stored offset lies beyond what was applied and the barrier command is lost on resume", c.Src(defs[0].Expr), c.Src(fromItem))
				} else {
					c.Undecidedf(rule, key, e.offCall.Pos(), "the stored offset is `%s`, not the Offset field of a batch element", c.Src(defs[0].Expr))
				}
				break
			}
			src, isLast := lastOfBatch(info, s, sel.X)
			switch {
			case isLast:
				c.Okf(rule, key, e.offCall.Pos(), "stored offset = batch[len(batch)-1].Offset")
				// and it is assigned before the offset HSET on the batched paths
				as := defs[0].Stmt
				w := e.x.Path(c03.XQuery{Avoid: func(n c03.XNode) bool { return n.N == as }, AvoidEdge: e.nbFalse, Target: e.isOffHset})
				c.Check(rule, "stored-assigned", e.offCall.Pos(), w == nil, "the offset variable must be assigned on every batched path before it is sent: otherwise 0 is stored and the restart replays the whole backlog (or fails)", w...)
			case src != nil && core.Mentions(info, src, s.Tunnel) && constIndex(info, src):
				c.Failf(rule, key, src.Pos(), "the checkpoint stores the offset of `%s`, not of the last command of the batch: after a restart the commands between that element and the end of the batch are applied a second time", c.Src(src))
			default:
				c.Undecidedf(rule, key, e.offCall.Pos(), "cannot show that `%s` is the last element of the batch", c.Src(sel.X))
			}
		}
	}
	if p != nil {
		info := p.Info
		idx := map[string]int{}
		for _, q := range p.Sends {
			idx[q.Name]++
			key := fmt.Sprintf("stamp/%s#%d", q.Name, idx[q.Name])
			off := q.Field["Offset"]
			if off == nil {
				c.Failf(rule, key, q.Pos(), "the enqueued command carries no Offset: its batch stores offset 0")
				continue
			}
			// the summands of the stamp (the value may be carried / built up in a temporary)
			var use ast.Node
			for _, pn := range core.PathTo(p.Fn.Decl.Body, off) {
				if st, ok := pn.(ast.Stmt); ok {
					if _, found := p.G.Find(st); found {
						use = st
					}
				}
			}
			var terms []ast.Expr
			for _, t := range c03.SumTerms(info, p.G, p.Fn.Decl, off, use) {
				if v, ok := core.IntConst(info, t); ok && v == 0 {
					continue
				}
				if _, isID := ast.Unparen(t).(*ast.Ident); isID {
					if o, ok := c03.SoleOrigin(info, p.Fn.Decl, t); ok && o.Expr != nil && o.Op == 0 && !o.Range && o.Res < 0 && c03.IsSourceOffset(info, o.Expr) {
						t = o.Expr // `base := ds.sourceOffset`
					}
				}
				terms = append(terms, t)
			}
			isInc := c03.SameVar(info, p.Fn.Decl, p.Inc)
			nBase, nInc := 0, 0
			for _, t := range terms {
				switch {
				case c03.IsSourceOffset(info, t):
					nBase++
				case isInc(t):
					nInc++
				}
			}
			switch {
			case !q.InLoop && len(terms) == 1 && nBase == 1:
				c.Okf(rule, key, q.Pos(), "the start SELECT is stamped with the resume offset itself")
			case q.InLoop && len(terms) == 2 && nBase == 1 && nInc == 1:
				c.Okf(rule, key, q.Pos(), "Offset = ds.sourceOffset + decoder position after this command")
			case q.InLoop && len(terms) == 1 && nBase == 1:
				c.Failf(rule, key, q.Pos(), "the command is stamped with the base offset only: every checkpoint stores the start offset, so a restart replays the whole stream since the start (commands applied twice)")
			case q.InLoop && len(terms) == 1 && nInc == 1:
				c.Failf(rule, key, q.Pos(), "the command is stamped with the decoder position without the start offset: the stored offset is not a source replication offset and PSYNC after restart fails or jumps")
			default:
				c.Undecidedf(rule, key, q.Pos(), "Offset `%s` is not `ds.sourceOffset + <second result of MustDecodeOpt>`", c.Src(off))
			}
		}
	}
	n := c03.ReportWriters(c, rule, "base-writer/",
		"The base therefore changes under the parser: the Offset stamped on a command (and stored by its batch's checkpoint) is no longer `offset at sync start + bytes decoded`. "+
			"Witness: the source sends 1 KiB/s; after three ACK ticks the base is start+6144 although 3072 bytes were received; the command that ends at stream position 3072 is stamped start+6144+3072, its checkpoint stores that, and a restart issues PSYNC <runid> start+9217: the commands in between are never applied (or the source answers FULLRESYNC).")
	if n == 0 {
		c.Undecidedf(rule, "base-writer", token.NoPos, "no writer of ds.sourceOffset found")
	}
}

// ---------------------------------------------------------------------------
// R3 one database per batch

func r3(c *core.Ctx, s *c03.Sender, p *c03.Parser, e *envelope) {
	const rule = "R3.one-db"
	info := s.Info
	// run-id bookkeeping is keyed by the database of the batch's last command
	n := 0
	core.Inspect(s.Lit, func(m ast.Node) bool {
		ix, ok := m.(*ast.IndexExpr)
		if !ok {
			return true
		}
		mt, ok := info.TypeOf(ix.X).Underlying().(*types.Map)
		if !ok || !types.Identical(mt.Key().Underlying(), types.Typ[types.Int]) {
			return true
		}
		n++
		key := fmt.Sprintf("runid-map-key#%d", n)
		sel, ok := ast.Unparen(ix.Index).(*ast.SelectorExpr)
		if ok && sel.Sel.Name == "Db" && core.NamedTypeName(info.TypeOf(sel.X)) == c03.CmdType {
			if _, isLast := lastOfBatch(info, s, sel.X); isLast {
				c.Okf(rule, key, ix.Pos(), "keyed by the Db of the batch's last command")
				return true
			}
		}
		if _, isConst := core.IntConst(info, ix.Index); isConst {
			c.Failf(rule, key, ix.Pos(), "the run-id map is indexed by the constant `%s`: run id and version are written into the first database only, so a checkpoint found in any other database resumes with run id \"?\" (full resync, data applied again)", c.Src(ix.Index))
		} else {
			c.Undecidedf(rule, key, ix.Pos(), "the run-id map is indexed by `%s`, not by the last command's Db", c.Src(ix.Index))
		}
		return true
	})
	if n == 0 {
		c.Undecidedf(rule, "runid-map-key", s.Lit.Pos(), "no per-database run-id bookkeeping found in sendFunc")
	}
	c03.BarrierBeforeAppend(c, s, "R3.barrier", true)
	c03.Automaton(c, "R3.automaton", true)
	// SELECTs injected by the parser
	if p == nil {
		return
	}
	bm, _ := c03.MapLiteral(c, c03.DbSync, c.Pkg(c03.DbSync).Types.Scope().Lookup("barrierMap"))
	idx := map[string]int{}
	for _, q := range p.Sends {
		cmd, ok := core.StringConst(p.Info, q.Field["Cmd"])
		if !ok || !strings.EqualFold(cmd, "select") {
			continue
		}
		idx[q.Name]++
		key := fmt.Sprintf("injected-select/%s#%d", q.Name, idx[q.Name])
		if _, isKey := bm[cmd]; isKey {
			c.Okf(rule, key, q.Pos(), "%q is a barrierMap key: the sender flushes before it", cmd)
			continue
		}
		fixed := func(ft cfgq.Fact) bool {
			eq, ok := c03.EqFact(ft, func(x ast.Expr) bool { return core.IsFieldNamed(p.Info, x, "Configuration", "TargetDB") },
				func(x ast.Expr) bool { v, ok := core.IntConst(p.Info, x); return ok && v == -1 })
			return ok && !eq
		}
		tn := q.Pt.Node()
		if p.G.Path(cfgq.Query{From: p.G.Entry(), AvoidEdge: p.Fl.Edge(fixed), Target: func(n ast.Node) bool { return n == tn }}) == nil {
			c.Okf(rule, key, q.Pos(), "%q is not a barrierMap key (the table is case-sensitive), but it is only enqueued when a fixed target database is configured, where every batch runs in that one database", cmd)
		} else {
			c.Undecidedf(rule, key, q.Pos(), "the injected %q is not a barrierMap key: the sender does not flush before it", cmd)
		}
	}
}

// ---------------------------------------------------------------------------
// R5 resume wiring

type loadVia struct {
	load, anchor  *ast.AssignStmt
	runIdx, dbIdx int
	clean         bool
}

// loadHelper finds `a, b, ... = ds.h(...)` in Sync where h is a module function
// that performs the LoadCheckpoint tuple assignment (storing the offset in
// ds.sourceOffset itself) and returns the loaded run id and database unchanged.
func loadHelper(c *core.Ctx, syncFn *core.Fn) *loadVia {
	info := syncFn.Pkg.TypesInfo
	var out *loadVia
	core.Inspect(syncFn.Decl.Body, func(n ast.Node) bool {
		as, ok := n.(*ast.AssignStmt)
		if !ok || len(as.Rhs) != 1 || len(as.Lhs) < 2 || out != nil {
			return true
		}
		call, ok := ast.Unparen(as.Rhs[0]).(*ast.CallExpr)
		if !ok {
			return true
		}
		fn := c.FnOf(core.CalleeFunc(info, call))
		if fn == nil || fn.Decl.Body == nil || !strings.HasPrefix(fn.Pkg.PkgPath, core.Module) {
			return true
		}
		hinfo := fn.Pkg.TypesInfo
		var load *ast.AssignStmt
		core.Inspect(fn.Decl.Body, func(m ast.Node) bool {
			if la, ok := m.(*ast.AssignStmt); ok && len(la.Rhs) == 1 && len(la.Lhs) == 4 {
				if lc, ok := ast.Unparen(la.Rhs[0]).(*ast.CallExpr); ok && core.IsFunc(core.CalleeFunc(hinfo, lc), "redis-shake/checkpoint", "", "LoadCheckpoint") {
					load = la
				}
			}
			return true
		})
		if load == nil || !c03.IsSourceOffset(hinfo, load.Lhs[1]) {
			return true
		}
		runO, dbO := core.ObjOf(hinfo, load.Lhs[0]), core.ObjOf(hinfo, load.Lhs[2])
		if runO == nil || dbO == nil {
			return true
		}
		// result positions: by explicit returns, or by named results
		var results []types.Object
		if fn.Decl.Type.Results != nil {
			for _, f := range fn.Decl.Type.Results.List {
				for _, nm := range f.Names {
					results = append(results, hinfo.Defs[nm])
				}
			}
		}
		v := &loadVia{load: load, anchor: as, runIdx: -1, dbIdx: -1, clean: true}
		g := cfgq.Of(c.Program, fn)
		lp, okp := g.Find(load)
		if !okp {
			return true
		}
		for _, pt := range g.Points(func(m ast.Node) bool { _, ok := m.(*ast.ReturnStmt); return ok }) {
			if g.Path(cfgq.Query{From: lp, After: true, Target: func(m ast.Node) bool { return m == pt.Node() }}) == nil {
				continue // a return not reached after the load
			}
			ret := pt.Node().(*ast.ReturnStmt)
			at := func(i int) types.Object {
				if len(ret.Results) == 0 && i < len(results) {
					return results[i]
				}
				if i < len(ret.Results) {
					if id, ok := ast.Unparen(ret.Results[i]).(*ast.Ident); ok {
						return core.ObjOf(hinfo, id)
					}
				}
				return nil
			}
			ri, di := -1, -1
			for i := 0; i < len(as.Lhs); i++ {
				if at(i) == runO {
					ri = i
				}
				if at(i) == dbO {
					di = i
				}
			}
			if ri < 0 || di < 0 || v.runIdx >= 0 && (v.runIdx != ri || v.dbIdx != di) {
				v.clean = false
			}
			v.runIdx, v.dbIdx = ri, di
		}
		// nothing rewrites the loaded values inside the helper after the load
		w := g.Path(cfgq.Query{From: lp, After: true, Target: func(m ast.Node) bool {
			switch x := m.(type) {
			case *ast.AssignStmt:
				for _, l := range x.Lhs {
					if c03.IsSourceOffset(hinfo, l) || c03.IsObj(hinfo, runO)(l) || c03.IsObj(hinfo, dbO)(l) {
						return true
					}
				}
			case *ast.IncDecStmt:
				return c03.IsSourceOffset(hinfo, x.X)
			}
			return false
		}})
		if w != nil || v.runIdx < 0 || v.dbIdx < 0 {
			v.clean = false
		}
		if v.runIdx < 0 || v.dbIdx < 0 {
			return true
		}
		out = v
		return true
	})
	return out
}

func r5(c *core.Ctx, p *c03.Parser) {
	const rule = "R5.resume"
	syncFn := c.Func(c03.DbSync, c03.Syncer, "Sync")
	psync := c.Func(c03.DbSync, c03.Syncer, "sendPSyncCmd")
	syncCmd := c.Func(c03.DbSync, c03.Syncer, "syncCommand")
	if syncFn == nil || psync == nil || syncCmd == nil {
		return
	}
	info := syncFn.Pkg.TypesInfo
	g := cfgq.Of(c.Program, syncFn)
	// (a) LoadCheckpoint results
	var load *ast.AssignStmt
	core.Inspect(syncFn.Decl.Body, func(n ast.Node) bool {
		if as, ok := n.(*ast.AssignStmt); ok && len(as.Rhs) == 1 && len(as.Lhs) == 4 {
			if call, ok := ast.Unparen(as.Rhs[0]).(*ast.CallExpr); ok && core.IsFunc(core.CalleeFunc(info, call), "redis-shake/checkpoint", "", "LoadCheckpoint") {
				load = as
			}
		}
		return true
	})
	anchor := load // the statement of Sync that delivers the loaded values
	dbRes := 2     // position of the database among the results bound by anchor
	var runV, dbV types.Object
	if load != nil {
		runV, dbV = core.ObjOf(info, load.Lhs[0]), core.ObjOf(info, load.Lhs[2])
	} else if h := loadHelper(c, syncFn); h != nil {
		// the load sits in a helper that Sync calls: `runId, dbid, err = ds.helper()`
		load, anchor, dbRes = h.load, h.anchor, h.dbIdx
		runV, dbV = core.ObjOf(info, anchor.Lhs[h.runIdx]), core.ObjOf(info, anchor.Lhs[h.dbIdx])
		if !h.clean {
			c.Undecidedf(rule, "Sync/load", anchor.Pos(), "the helper that loads the checkpoint also rewrites the loaded values")
			return
		}
	}
	if load == nil {
		c.Undecidedf(rule, "Sync/load", syncFn.Decl.Pos(), "no `runId, offset, dbid, err = checkpoint.LoadCheckpoint(...)` in Sync")
		return
	}
	// a value "comes from result #k of the load" when that is one of its origins (copies through temporaries are followed)
	loadCall := ast.Unparen(anchor.Rhs[0])
	fromLoad := func(e ast.Expr, res int) bool {
		for _, o := range c03.Origins(info, syncFn.Decl, e) {
			if o.Expr != nil && ast.Unparen(o.Expr) == loadCall && o.Res == res {
				return true
			}
		}
		return false
	}
	onlyFromLoad := func(e ast.Expr, res int) bool {
		k := 0
		for _, o := range c03.Origins(info, syncFn.Decl, e) {
			if o.Zero {
				continue
			}
			k++
			if o.Expr == nil || ast.Unparen(o.Expr) != loadCall || o.Res != res {
				return false
			}
		}
		return k > 0
	}
	offOK, offUnknown := c03.IsSourceOffset(info, load.Lhs[1]), false
	if lid, ok := ast.Unparen(load.Lhs[1]).(*ast.Ident); ok && lid.Name != "_" && anchor == load {
		for _, wr := range c03.FieldWrites(c, c03.Syncer, "sourceOffset") {
			if wr.In.Lit == nil && wr.In.Decl == syncFn.Decl && wr.Rhs != nil && (c03.IsObj(info, core.ObjOf(info, lid))(wr.Rhs) || wr.Res < 0 && onlyFromLoad(wr.Rhs, 1)) {
				offOK = true
			}
		}
		offUnknown = !offOK
	}
	if offUnknown {
		c.Undecidedf(rule, "Sync/offset-from-checkpoint", load.Pos(), "cannot trace the checkpoint's offset `%s` to ds.sourceOffset", c.Src(load.Lhs[1]))
	} else {
		c.Check(rule, "Sync/offset-from-checkpoint", load.Pos(), offOK,
			fmt.Sprintf("the checkpoint's offset (2nd result of LoadCheckpoint) must become ds.sourceOffset, found `%s`: PSYNC would not continue after the stored offset", c.Src(load.Lhs[1])))
	}
	lp, _ := g.Find(anchor)
	// (b) the PSYNC call receives the loaded run id, nothing overwrites offset or run id in between
	isPsyncCall := g.HasCall(func(call *ast.CallExpr, callee types.Object) bool { return callee == types.Object(psync.Obj) })
	var pcall *ast.CallExpr
	for _, pt := range g.Points(isPsyncCall) {
		for _, call := range cfgq.ExecCalls(pt.Node()) {
			if core.CalleeFunc(info, call) == psync.Obj {
				pcall = call
			}
		}
	}
	if pcall == nil || runV == nil || dbV == nil {
		c.Undecidedf(rule, "Sync/psync-call", syncFn.Decl.Pos(), "Sync does not call sendPSyncCmd, or the LoadCheckpoint results are not bound to locals")
		return
	}
	runRes := 0
	if anchor != load {
		for i, l := range anchor.Lhs {
			if core.ObjOf(info, l) == runV {
				runRes = i
			}
		}
	}
	argIdx := -1
	for i, a := range pcall.Args {
		if c03.IsObj(info, runV)(a) || fromLoad(a, runRes) {
			argIdx = i
		}
	}
	switch {
	case argIdx >= 0:
		c.Okf(rule, "Sync/runid-to-psync", pcall.Pos(), "the run id loaded from the checkpoint is handed to sendPSyncCmd")
	default: // the run id may travel through another local
		c.Undecidedf(rule, "Sync/runid-to-psync", pcall.Pos(), "the run id loaded from the checkpoint is not passed to sendPSyncCmd directly")
	}
	// writes of ds.sourceOffset through a pointer local (`p := &ds.sourceOffset; *p = v`)
	ptrWrites := map[ast.Node]c03.FieldWrite{}
	for _, wr := range c03.FieldWrites(c, c03.Syncer, "sourceOffset") {
		if wr.In.Lit == nil && wr.In.Decl == syncFn.Decl && wr.Tok != token.AND {
			ptrWrites[wr.Stmt] = wr
		}
	}
	clobber := func(n ast.Node) bool {
		if n == ast.Node(anchor) || isPsyncCall(n) {
			return false
		}
		if wr, ok := ptrWrites[n]; ok {
			if as, isAs := n.(*ast.AssignStmt); !isAs || !anyLhs(as, func(l ast.Expr) bool { return c03.IsSourceOffset(info, l) }) {
				// not visible as a plain field assignment below
				return !(wr.Tok == token.ASSIGN && wr.Res < 0 && wr.Rhs != nil && anchor == load && onlyFromLoad(wr.Rhs, 1))
			}
		}
		switch x := n.(type) {
		case *ast.AssignStmt:
			for i, l := range x.Lhs {
				if c03.IsSourceOffset(info, l) && len(x.Lhs) == len(x.Rhs) {
					// storing the loaded offset itself is the wiring, not a clobber
					if lid, ok := ast.Unparen(load.Lhs[1]).(*ast.Ident); ok && anchor == load && (c03.IsObj(info, core.ObjOf(info, lid))(x.Rhs[i]) || onlyFromLoad(x.Rhs[i], 1)) {
						continue
					}
				}
				if c03.IsSourceOffset(info, l) {
					return true
				}
				// a carrier of the loaded run id / database is overwritten with something else
				if len(x.Lhs) == len(x.Rhs) && (fromLoad(l, runRes) && !fromLoad(x.Rhs[i], runRes) || fromLoad(l, dbRes) && !fromLoad(x.Rhs[i], dbRes)) {
					if _, isID := ast.Unparen(l).(*ast.Ident); isID {
						return true
					}
				}
			}
		case *ast.IncDecStmt:
			return c03.IsSourceOffset(info, x.X)
		}
		return false
	}
	w := g.Path(cfgq.Query{From: lp, After: true, Avoid: isPsyncCall, Target: clobber})
	c.Check(rule, "Sync/no-clobber", load.Pos(), w == nil,
		"between LoadCheckpoint and the PSYNC the loaded offset/run id/database must not be overwritten: PSYNC would start from another position than the checkpoint (commands lost or repeated)", w...)
	// the error arm of the load may leave Sync; only the success paths must reach the PSYNC
	var errV types.Object
	errRes := len(anchor.Lhs) - 1
	if last := anchor.Lhs[errRes]; cfgq.IsErrorType(info.TypeOf(last)) {
		errV = core.ObjOf(info, last)
	}
	sfl := c03.NewFlow(g)
	isErr := func(x ast.Expr) bool {
		return c03.IsObj(info, errV)(x) || cfgq.IsErrorType(info.TypeOf(x)) && fromLoad(x, errRes)
	}
	failed := sfl.Edge(func(ft cfgq.Fact) bool {
		eq, ok := c03.EqFact(ft, isErr, func(x ast.Expr) bool { return core.IsNil(info, x) })
		return ok && !eq
	})
	w = g.Path(cfgq.Query{From: lp, After: true, Avoid: isPsyncCall, TargetExit: cfgq.NormalExit,
		AvoidEdge: func(b *cfg.Block, i int) bool { return errV != nil && failed(b, i) }})
	c.Check(rule, "Sync/psync-follows", load.Pos(), w == nil, "every path on which the checkpoint was loaded leads to sendPSyncCmd (or aborts)", w...)
	// (c) dbid -> ds.startDbId before syncCommand
	ws := c03.FieldWrites(c, c03.Syncer, "startDbId")
	var startAs ast.Node
	for _, wr := range ws {
		if wr.In.Lit == nil && wr.In.Decl == syncFn.Decl && wr.Rhs != nil && (c03.IsObj(info, dbV)(wr.Rhs) || fromLoad(wr.Rhs, dbRes)) {
			startAs = wr.Stmt
		} else {
			c.Undecidedf(rule, "Sync/start-db/writer/"+wr.In.Name, wr.Stmt.Pos(), "ds.startDbId is written by `%s`", c.Src(wr.Stmt))
		}
	}
	if startAs == nil && len(ws) > 0 {
		c.Undecidedf(rule, "Sync/start-db", load.Pos(), "ds.startDbId is written, but not by `ds.startDbId = <3rd result of LoadCheckpoint>` in Sync")
	} else if startAs == nil {
		c.Failf(rule, "Sync/start-db", load.Pos(), "the database of the loaded checkpoint (3rd result of LoadCheckpoint) never reaches ds.startDbId: after PSYNC CONTINUE the commands are applied in database 0 instead of the database the stream was in")
	} else {
		ok := true
		var wit []string
		for _, sp := range g.Points(g.HasCall(func(call *ast.CallExpr, callee types.Object) bool { return callee == types.Object(syncCmd.Obj) })) {
			dom, w := g.Dominated(sp, func(n ast.Node) bool { return n == startAs })
			if !dom {
				ok, wit = false, w
			}
		}
		c.Check(rule, "Sync/start-db", startAs.Pos(), ok, "ds.startDbId must be set before syncCommand starts the parser that reads it", wit...)
		// the local only holds the checkpoint's database (or its zero default)
		for i, o := range c03.Origins(info, syncFn.Decl.Body, anchor.Lhs[dbRes]) {
			good := o.Zero || ast.Unparen(o.Expr) == ast.Unparen(anchor.Rhs[0]) && o.Res == dbRes
			if !good {
				if v, isC := core.IntConst(info, o.Expr); isC && v == 0 {
					good = true
				}
			}
			if !good {
				c.Undecidedf(rule, fmt.Sprintf("Sync/start-db/source#%d", i+1), load.Pos(), "the database variable is also defined by `%s`", c.Src(o.Stmt))
			}
		}
	}
	// (d) sendPSyncCmd: SendPSyncContinue(br, bw, <runId param>, ds.sourceOffset); ds.sourceOffset = <2nd result>
	n := c03.PSyncCalls(c, rule, "sendPSyncCmd")
	if n == 0 {
		c.Undecidedf(rule, "sendPSyncCmd/call", psync.Decl.Pos(), "sendPSyncCmd does not call SendPSyncContinue")
	}
	if argIdx >= 0 {
		// the parameter that receives the run id is the one passed on
		var params []*ast.Ident
		for _, f := range psync.Decl.Type.Params.List {
			params = append(params, f.Names...)
		}
		pinfo := psync.Pkg.TypesInfo
		okParam := false
		core.Inspect(psync.Decl.Body, func(m ast.Node) bool {
			if call, ok := m.(*ast.CallExpr); ok && core.IsFunc(core.CalleeFunc(pinfo, call), c03.Common, "", "SendPSyncContinue") && len(call.Args) == 4 && argIdx < len(params) {
				okParam = c03.IsObj(pinfo, pinfo.Defs[params[argIdx]])(call.Args[2])
			}
			return true
		})
		c.Check(rule, "sendPSyncCmd/runid-param", psync.Decl.Pos(), okParam, "the run id Sync passes in must be the one sent with PSYNC")
	}
	pinfo := psync.Pkg.TypesInfo
	stored := 0
	for _, wr := range c03.FieldWrites(c, c03.Syncer, "sourceOffset") {
		if wr.In.Lit != nil || wr.In.Decl != psync.Decl {
			continue
		}
		stored++
		good := false
		if wr.Rhs != nil {
			if o, ok := c03.SoleOrigin(pinfo, psync.Decl.Body, wr.Rhs); ok {
				_, good = c03.CallOrigin(pinfo, o, c03.Common, "", "SendPSyncContinue", 1)
			}
		}
		c.Check(rule, "sendPSyncCmd/stores-announced-offset", wr.Stmt.Pos(), good,
			fmt.Sprintf("sendPSyncCmd must store the offset returned by SendPSyncContinue (CONTINUE: the resume offset; FULLRESYNC: the offset the source announced) in ds.sourceOffset, found `%s`", c.Src(wr.Stmt)))
	}
	if stored == 0 {
		c.Failf(rule, "sendPSyncCmd/stores-announced-offset", psync.Decl.Pos(), "sendPSyncCmd never stores the offset announced by the source: after FULLRESYNC all command offsets are relative to a stale base")
	}
	runIdStored(c, rule, psync)
	c03.PSyncContinue(c, rule)
	if p != nil {
		c03.StartDb(c, p, rule)
	}
}
