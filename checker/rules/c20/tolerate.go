package c20

import (
	"fmt"
	"go/ast"
	"go/token"
	"go/types"
	"sort"
	"strings"

	"golang.org/x/tools/go/cfg"

	"rscheck/cfgq"
	"rscheck/core"
	"rscheck/rules/c06/tt"
)

// R6: a faulty node is tolerated. On the call tree of the role probe
// (getRedisNodeState -> the connection factory stored in the supervisor ->
// utils.OpenNetConn -> utils.AuthPassword -> ...) a failed I/O operation must come back
// as an error value: a branch taken because an error is non-nil must not lead to a
// no-return call (log.Panic*, os.Exit), otherwise one node that drops the connection
// ends the process although the other nodes were never asked.
//
// The sites that exist on the pinned tree are frozen below with their exact position in
// the mechanism (function / operation whose error is tested); each is reported as such.
// Any other site is a violation.

// baselineAborts: "function/operation" of the abort-on-error sites present on the pinned tree.
// A site is named by the operation whose error is tested (not by the function it is written in:
// the test may be moved into a helper); one site per operation is frozen.
var baselineAborts = map[string]string{
	"Write":         "a failed write of the AUTH command ends the process (AuthPassword on the pinned tree; the read of the reply returns an error)",
	"EncodeToBytes": "the encoder's Must wrapper panics when the AUTH command cannot be encoded (not an I/O error; MustEncodeToBytes on the pinned tree)",
}

type abortSite struct {
	fn     *core.Fn
	origin string
	pos    token.Pos
	via    []string
}

func tolerate(c *core.Ctx, node *core.Fn) {
	// the functions of the probe's call tree
	type item struct {
		fn    *core.Fn
		depth int
		via   []string
	}
	seen := map[*core.Fn]bool{node: true}
	queue := []item{{node, 0, nil}}
	var tree []item
	unresolved := ""
	for len(queue) > 0 {
		it := queue[0]
		queue = queue[1:]
		tree = append(tree, it)
		if it.depth >= 5 || it.fn.Decl.Body == nil {
			continue
		}
		info := it.fn.Pkg.TypesInfo
		add := func(f *types.Func) {
			h := c.FnOf(f)
			if h == nil || h.Decl.Body == nil || seen[h] || f.Pkg() == nil || !strings.HasPrefix(f.Pkg().Path(), core.Module) {
				return
			}
			// logging is not part of the mechanism (its no-return entry points are the targets)
			if strings.Contains(f.Pkg().Path(), "/libs/log") || strings.Contains(f.Pkg().Path(), "/libs/errors") {
				return
			}
			seen[h] = true
			queue = append(queue, item{h, it.depth + 1, append(append([]string(nil), it.via...), it.fn.Decl.Name.Name)})
		}
		ast.Inspect(it.fn.Decl.Body, func(n ast.Node) bool {
			call, ok := n.(*ast.CallExpr)
			if !ok {
				return true
			}
			if f := core.CalleeFunc(info, call); f != nil {
				add(f)
				return true
			}
			// a call through a function-typed field: the values stored in that field
			if sel, ok := ast.Unparen(call.Fun).(*ast.SelectorExpr); ok {
				if fld := core.FieldOf(info, sel); fld != nil {
					if _, isFunc := fld.Type().Underlying().(*types.Signature); isFunc {
						vals, complete := fieldFuncs(c, it.fn, fld)
						for _, f := range vals {
							add(f)
						}
						if !complete {
							unresolved = fld.Name()
						}
					}
				}
			}
			return true
		})
	}
	if unresolved != "" {
		c.Undecidedf("R6.tolerate", "probe/call-tree", node.Decl.Pos(), "a value stored in the function field `%s` is not a declared function: the probe's call tree is not known completely", unresolved)
	}
	var sites []abortSite
	// helpers that end the process when the error handed to them is non-nil: the operation is the
	// caller's
	abortsOnParam := map[types.Object]int{}
	for _, it := range tree {
		fn := it.fn
		if fn.Decl.Body == nil {
			continue
		}
		info := fn.Pkg.TypesInfo
		g := cfgq.Of(c.Program, fn)
		x := tt.New(g)
		x.Prog = c.Program
		for _, b := range g.CFG.Blocks {
			if !b.Live {
				continue
			}
			for si := range b.Succs {
				var errObj types.Object
				for _, f := range x.EdgeFacts(b, si) {
					if is, nonNil := errFact(info, f, nil); is && nonNil {
						be := ast.Unparen(f.Expr).(*ast.BinaryExpr)
						errObj = core.ObjOf(info, be.X)
						if core.IsNil(info, be.X) {
							errObj = core.ObjOf(info, be.Y)
						}
					}
				}
				if errObj == nil {
					continue
				}
				w := g.Path(cfgq.Query{From: cfgq.Point{B: b.Succs[si]}, TargetExit: func(_ *cfgBlock, k cfgq.ExitKind) bool { return k == cfgq.ExitAbort },
					AvoidEdge: func(bk *cfgBlock, s int) bool {
						// the error is tested again and found nil
						return x.Establishes(bk, s, func(f cfgq.Fact) bool { is, nonNil := errFact(info, f, errObj); return is && !nonNil })
					}})
				if w == nil {
					continue
				}
				cond := x.Cond(b)
				pos := b.Nodes[len(b.Nodes)-1].Pos()
				if cond != nil {
					pos = cond.Pos()
				}
				if k := paramIndexOf(info, fn, errObj); k >= 0 {
					if len(tt.DefsOf(info, fn.Decl.Body, errObj)) == 0 {
						abortsOnParam[fn.Obj] = k
						continue
					}
				}
				sites = append(sites, abortSite{fn: fn, origin: errOrigin(info, fn.Decl.Body, errObj, pos), pos: pos, via: it.via})
			}
		}
	}
	for _, it := range tree {
		fn := it.fn
		if fn.Decl.Body == nil || len(abortsOnParam) == 0 {
			continue
		}
		info := fn.Pkg.TypesInfo
		ast.Inspect(fn.Decl.Body, func(n ast.Node) bool {
			call, ok := n.(*ast.CallExpr)
			if !ok {
				return true
			}
			f := core.CalleeFunc(info, call)
			k, aborts := abortsOnParam[types.Object(f)]
			if f == nil || !aborts || k >= len(call.Args) {
				return true
			}
			origin := "an operation"
			switch a := ast.Unparen(call.Args[k]).(type) {
			case *ast.Ident:
				if o := core.ObjOf(info, a); o != nil {
					origin = errOrigin(info, fn.Decl.Body, o, call.Pos())
				}
			case *ast.CallExpr:
				switch fe := ast.Unparen(a.Fun).(type) {
				case *ast.SelectorExpr:
					origin = fe.Sel.Name
				case *ast.Ident:
					origin = fe.Name
				}
			}
			sites = append(sites, abortSite{fn: fn, origin: origin, pos: call.Pos(), via: it.via})
			return true
		})
	}
	sort.Slice(sites, func(i, j int) bool { return sites[i].pos < sites[j].pos })
	reported := map[string]bool{}
	count := map[string]int{}
	for _, s := range sites {
		id := s.origin
		count[id]++
		key := "probe/no-exit-on-error/" + id
		if count[id] > 1 {
			key = fmt.Sprintf("%s#%d", key, count[id])
		}
		if why, frozen := baselineAborts[id]; frozen && count[id] == 1 {
			reported[id] = true
			c.Okf("R6.tolerate", key, s.pos, "baseline site: %s", why)
			continue
		}
		chain := strings.Join(append(append([]string(nil), s.via...), s.fn.Decl.Name.Name), " -> ")
		c.Failf("R6.tolerate", key, s.pos, "on the call tree of the role probe (%s) an error of %s leads to a no-return call (process exit) instead of an error value: a node that accepts the connection and then fails makes the whole discovery die, although faulty nodes must be tolerated and the other nodes asked", chain, s.origin)
	}
	for id, why := range baselineAborts {
		if !reported[id] {
			c.Okf("R6.tolerate", "probe/no-exit-on-error/"+id, node.Decl.Pos(), "the baseline site is gone (%s)", why)
		}
	}
	c.Okf("R6.tolerate", "probe/call-tree", node.Decl.Pos(), "%d functions on the probe's call tree examined", len(tree))
}

type cfgBlock = cfg.Block

// errOrigin names the operation whose error the variable holds at pos: the callee of the latest
// assignment in front of pos.
func errOrigin(info *types.Info, body *ast.BlockStmt, errObj types.Object, pos token.Pos) string {
	best := token.NoPos
	name := "an operation"
	for _, d := range tt.DefsOf(info, body, errObj) {
		if d.Rhs == nil || d.Stmt == nil || d.Stmt.Pos() > pos || d.Stmt.Pos() < best {
			continue
		}
		if call, ok := ast.Unparen(d.Rhs).(*ast.CallExpr); ok {
			best = d.Stmt.Pos()
			switch f := ast.Unparen(call.Fun).(type) {
			case *ast.SelectorExpr:
				name = f.Sel.Name
			case *ast.Ident:
				name = f.Name
			default:
				name = fmt.Sprintf("a call at offset %d", call.Pos())
			}
		}
	}
	return name
}

// fieldFuncs lists the declared functions stored in the function-typed field fld (composite
// literals and assignments in the non-test files of the field's package); complete is false when
// some stored value is not a declared function.
func fieldFuncs(c *core.Ctx, user *core.Fn, fld *types.Var) (out []*types.Func, complete bool) {
	complete = true
	found := false
	for _, pk := range c.Pkgs {
		if pk.Types != fld.Pkg() || pk.TypesInfo == nil {
			continue
		}
		info := pk.TypesInfo
		for _, f := range pk.Syntax {
			if core.IsTestFile(c.Program.Fset, f) {
				continue
			}
			record := func(v ast.Expr) {
				found = true
				var fn *types.Func
				switch e := ast.Unparen(v).(type) {
				case *ast.Ident:
					fn, _ = info.Uses[e].(*types.Func)
				case *ast.SelectorExpr:
					fn, _ = info.Uses[e.Sel].(*types.Func)
				}
				if fn == nil {
					complete = false
					return
				}
				out = append(out, fn)
			}
			ast.Inspect(f, func(n ast.Node) bool {
				switch v := n.(type) {
				case *ast.KeyValueExpr:
					if id, ok := v.Key.(*ast.Ident); ok && info.Uses[id] == types.Object(fld) {
						record(v.Value)
					}
				case *ast.AssignStmt:
					for i, l := range v.Lhs {
						if sel, ok := ast.Unparen(l).(*ast.SelectorExpr); ok && info.Uses[sel.Sel] == types.Object(fld) && len(v.Lhs) == len(v.Rhs) {
							record(v.Rhs[i])
						}
					}
				}
				return true
			})
		}
	}
	if !found {
		complete = false
	}
	_ = user
	return out, complete
}

func paramIndexOf(info *types.Info, fn *core.Fn, o types.Object) int {
	k := 0
	for _, fl := range fn.Decl.Type.Params.List {
		for _, n := range fl.Names {
			if info.Defs[n] == o {
				return k
			}
			k++
		}
		if len(fl.Names) == 0 {
			k++
		}
	}
	return -1
}
