package c20

import (
	"go/ast"
	"go/token"
	"go/types"
	"strings"

	"rscheck/cfgq"
	"rscheck/core"
	"rscheck/rules/c06/tt"
)

// ---------------------------------------------------------------------------
// R7: the known nodes of a shard
//
// The supervisor probes "the shard's known nodes": Source followed by Slaves of its
// slot.SyncNode, which run/sync.go copies from the utils.SlotOwner that
// utils.GetSlotDistribution built for the shard out of the CLUSTER SLOTS reply. A
// necessary condition of "picks, among the shard's known nodes, ..." is that the replica
// list of a shard is that shard's own list: the []string stored in the Slave field of one
// SlotOwner must be a slice that was made for this SlotOwner. Between two executions of
// the statement that stores a replica list (two shards of the reply) the stored slice must
// have been allocated anew (make, a literal, nil, append onto one of these). A slice that
// is only re-sliced (`l = l[:0]`) or appended to in place keeps its backing array: the
// lists of all shards then are windows onto one array and show the replicas of the shard
// that was written last.
//
// Decided on the inlined view of GetSlotDistribution (same-package helpers are part of
// it): for every store of a replica list (a SlotOwner literal, an assignment to
// <SlotOwner>.Slave) the origin of the stored value is followed through append / re-slice
// / copies of locals to the local that carries the backing array; the go/cfg graph is then
// asked for a path from the store back to the store that crosses no allocation of that
// local.

const pkgCommon = "redis-shake/common"

const ruleNodes = "R7.known-nodes"

type sliceKind int

const (
	sliceFresh   sliceKind = iota // allocated by this very expression
	sliceVar                      // the backing array is the one the local holds
	sliceUnknown                  // not analysed
)

type verdict int

const (
	vPass verdict = iota
	vFail
	vUndecided
)

type nodesRule struct {
	c    *core.Ctx
	info *types.Info
	view *tt.View
	g    *cfgq.Graph
	name string
}

func isSlotOwner(t types.Type) bool {
	if t == nil {
		return false
	}
	if p, ok := t.(*types.Pointer); ok {
		t = p.Elem()
	}
	n, ok := t.(*types.Named)
	if !ok || n.Obj().Name() != "SlotOwner" || n.Obj().Pkg() == nil {
		return false
	}
	return strings.HasSuffix(n.Obj().Pkg().Path(), pkgCommon)
}

func isStringSlice(t types.Type) bool {
	if t == nil {
		return false
	}
	s, ok := t.Underlying().(*types.Slice)
	if !ok {
		return false
	}
	b, ok := s.Elem().Underlying().(*types.Basic)
	return ok && b.Kind() == types.String
}

// allocating library functions: the result is a slice nobody else holds
var allocatingFuncs = map[string]bool{
	"strings.Split": true, "strings.SplitN": true, "strings.Fields": true, "strings.SplitAfter": true,
}

// origin follows a slice-valued expression to what carries its backing array.
func (r *nodesRule) origin(e ast.Expr) (sliceKind, *types.Var) {
	info := r.info
	e = ast.Unparen(e)
	if e == nil {
		return sliceUnknown, nil
	}
	if core.IsNil(info, e) {
		return sliceFresh, nil
	}
	switch v := e.(type) {
	case *ast.CompositeLit:
		if _, ok := info.TypeOf(v).Underlying().(*types.Slice); ok {
			return sliceFresh, nil
		}
	case *ast.SliceExpr:
		if _, ok := info.TypeOf(v.X).Underlying().(*types.Slice); ok {
			return r.origin(v.X) // a window onto the same array
		}
	case *ast.CallExpr:
		if tv, ok := info.Types[v.Fun]; ok && tv.IsType() && len(v.Args) == 1 {
			return r.origin(v.Args[0]) // []string(x)
		}
		switch callee := core.Callee(info, v).(type) {
		case *types.Builtin:
			switch callee.Name() {
			case "make":
				return sliceFresh, nil
			case "append":
				if len(v.Args) > 0 {
					// append onto a fresh slice allocates; otherwise the result may still be the
					// first argument's array
					return r.origin(v.Args[0])
				}
			}
		case *types.Func:
			if callee.Pkg() != nil && allocatingFuncs[callee.Pkg().Path()+"."+callee.Name()] {
				return sliceFresh, nil
			}
		}
	case *ast.Ident:
		if lv, ok := core.ObjOf(info, v).(*types.Var); ok && !lv.IsField() && lv.Pkg() != nil && lv.Parent() != lv.Pkg().Scope() {
			return sliceVar, lv
		}
	}
	return sliceUnknown, nil
}

// enclosingLoops: the loops around n inside the view's body, outermost first; ok is false when
// n lies in a function literal (its executions are not the graph's).
func (r *nodesRule) enclosingLoops(n ast.Node) (loops []ast.Node, ok bool) {
	path := core.PathTo(r.view.Body, n)
	if path == nil {
		return nil, false
	}
	for _, a := range path {
		switch a.(type) {
		case *ast.FuncLit:
			return nil, false
		case *ast.ForStmt, *ast.RangeStmt:
			if a != n {
				loops = append(loops, a)
			}
		}
	}
	return loops, true
}

func within(root, n ast.Node) bool {
	return root == n || core.PathTo(root, n) != nil
}

// renewedBetween decides whether the array held by v at the node `at` is a new one on every
// execution of `at`: vPass when every path from `at` back to `at` allocates v anew, vFail when a
// path exists and nothing inside the loops around `at` can ever allocate it, vUndecided otherwise.
func (r *nodesRule) renewedBetween(v *types.Var, at ast.Node, depth int) (verdict, []string, string) {
	info, body := r.info, r.view.Body
	if depth == 0 {
		return vUndecided, nil, "the chain of copies that leads to `" + v.Name() + "` is too long"
	}
	// the address of the local escapes: it may be assigned through a pointer
	escaped := false
	ast.Inspect(body, func(n ast.Node) bool {
		if u, ok := n.(*ast.UnaryExpr); ok && u.Op == token.AND && identObj(info, u.X) == types.Object(v) {
			escaped = true
		}
		return !escaped
	})
	if escaped {
		return vUndecided, nil, "the address of `" + v.Name() + "` is taken"
	}
	var renew, stale []ast.Node
	for _, d := range tt.DefsOf(info, body, v) {
		if _, inGraph := r.enclosingLoops(d.Stmt); !inGraph {
			return vUndecided, nil, "`" + v.Name() + "` is assigned inside a function literal"
		}
		if d.Rhs == nil {
			if _, isDecl := d.Stmt.(*ast.ValueSpec); isDecl {
				renew = append(renew, d.Stmt) // `var l []string`: nil
				continue
			}
			return vUndecided, nil, "`" + c20src(r.c, d.Stmt) + "` is not an analysed form of assignment"
		}
		if d.Range != nil || d.Index != -1 {
			return vUndecided, nil, "`" + v.Name() + "` is bound by `" + c20src(r.c, d.Stmt) + "`: where that slice comes from is not analysed"
		}
		switch k, o := r.origin(d.Rhs); {
		case k == sliceFresh:
			renew = append(renew, d.Stmt)
		case k == sliceVar && o == v:
			stale = append(stale, d.Stmt) // l = l[:0], l = append(l, x): still the same array (or its successor)
		case k == sliceVar:
			// a copy of another local: it renews v when that local is renewed between two copies
			switch sub, _, why := r.renewedBetween(o, d.Stmt, depth-1); sub {
			case vPass:
				renew = append(renew, d.Stmt)
			case vFail:
				stale = append(stale, d.Stmt)
			default:
				return vUndecided, nil, why
			}
		default:
			return vUndecided, nil, "where the slice assigned by `" + c20src(r.c, d.Stmt) + "` comes from is not analysed"
		}
	}
	pt, ok := tt.Find(r.g, at)
	if !ok {
		return vUndecided, nil, "the statement is not part of the control-flow graph"
	}
	avoid := map[ast.Node]bool{}
	for _, s := range renew {
		p, ok := tt.Find(r.g, s)
		if !ok {
			return vUndecided, nil, "a definition of `" + v.Name() + "` is not part of the control-flow graph"
		}
		if p.Node() == pt.Node() {
			return vPass, nil, "" // allocated by the storing statement itself
		}
		avoid[p.Node()] = true
	}
	target := pt.Node()
	w := r.g.Path(cfgq.Query{From: pt, After: true,
		Avoid:  func(n ast.Node) bool { return avoid[n] },
		Target: func(n ast.Node) bool { return n == target }})
	if w == nil {
		return vPass, nil, ""
	}
	// a path exists. It is a proof only when no allocation of v can run between two stores at all:
	// none lies inside a loop around the store (a conditional allocation, or one in an outer loop
	// while the store sits in an inner one, needs the values of the conditions)
	loops, _ := r.enclosingLoops(at)
	for _, s := range renew {
		for _, l := range loops {
			if within(l, s) {
				return vUndecided, w, "`" + v.Name() + "` is allocated inside the loop (`" + c20src(r.c, s) + "`), but not on every path between two stores"
			}
		}
	}
	_ = stale
	return vFail, w, ""
}

func c20src(c *core.Ctx, n ast.Node) string {
	s := c.Src(n)
	if i := strings.IndexByte(s, '\n'); i >= 0 {
		s = s[:i] + " ..."
	}
	return s
}

// knownNodes checks every store of a replica list in GetSlotDistribution.
func knownNodes(c *core.Ctx) {
	fn := c.Func(pkgCommon, "", "GetSlotDistribution")
	if fn == nil {
		return // c.Func recorded the lost anchor
	}
	info := fn.Pkg.TypesInfo
	view := tt.ViewOf(c.Program, fn, "c20nodes", nil)
	r := &nodesRule{c: c, info: info, view: view, g: view.G, name: fn.Decl.Name.Name}
	key := r.name + "/replica-list-per-shard"
	const consequence = ": all shards share one backing array and each shard ends up listing the replicas of the shard that was written last; the supervisor of any other shard then probes foreign nodes, so after a fail-over it misses the promoted replica of its own shard ('Max retries reached') or selects the master of another shard"

	type store struct {
		at    ast.Node // the node whose executions are the stores
		value ast.Expr // nil: the field keeps its zero value
		pos   token.Pos
	}
	var stores []store
	inLit := false
	ast.Inspect(view.Body, func(n ast.Node) bool {
		switch v := n.(type) {
		case *ast.CompositeLit:
			if !isSlotOwner(info.TypeOf(v)) {
				return true
			}
			lt := info.TypeOf(v)
			if p, isPtr := lt.(*types.Pointer); isPtr {
				lt = p.Elem()
			}
			st, _ := lt.Underlying().(*types.Struct)
			if st == nil {
				return true
			}
			s := store{at: v, pos: v.Pos()}
			for i, el := range v.Elts {
				if kv, ok := el.(*ast.KeyValueExpr); ok {
					if k, ok := kv.Key.(*ast.Ident); ok && k.Name == "Slave" {
						s.value = kv.Value
					}
				} else if i < st.NumFields() && st.Field(i).Name() == "Slave" {
					s.value = el
				}
			}
			stores = append(stores, s)
		case *ast.AssignStmt:
			if len(v.Lhs) != len(v.Rhs) {
				for _, l := range v.Lhs {
					if f := core.FieldOf(info, l); f != nil && f.Name() == "Slave" && isSlotOwner(info.TypeOf(ast.Unparen(l).(*ast.SelectorExpr).X)) {
						stores = append(stores, store{at: v, value: v.Rhs[0], pos: v.Pos()})
					}
				}
				return true
			}
			for i, l := range v.Lhs {
				f := core.FieldOf(info, l)
				if f == nil || f.Name() != "Slave" || !isSlotOwner(info.TypeOf(ast.Unparen(l).(*ast.SelectorExpr).X)) {
					continue
				}
				// <x>.Slave = append(<x>.Slave, ..) / <x>.Slave[:k]: the list that is already stored in
				// the SlotOwner grows in place; which list that is was decided where it was stored
				base := ast.Unparen(v.Rhs[i])
				for {
					if call, ok := base.(*ast.CallExpr); ok && len(call.Args) > 0 {
						if b, isB := core.Callee(info, call).(*types.Builtin); isB && b.Name() == "append" {
							base = ast.Unparen(call.Args[0])
							continue
						}
					}
					if sl, ok := base.(*ast.SliceExpr); ok {
						base = ast.Unparen(sl.X)
						continue
					}
					break
				}
				if base != ast.Unparen(v.Rhs[i]) && tt.SameExpr(info, base, l) {
					continue
				}
				stores = append(stores, store{at: v, value: v.Rhs[i], pos: v.Pos()})
			}
		case *ast.FuncLit:
			ast.Inspect(v.Body, func(m ast.Node) bool {
				if cl, ok := m.(*ast.CompositeLit); ok && isSlotOwner(info.TypeOf(cl)) {
					inLit = true
				}
				return true
			})
			return false
		}
		return true
	})
	if inLit {
		c.Undecidedf(ruleNodes, key, fn.Decl.Pos(), "a SlotOwner is built inside a function literal: its executions are not analysed")
	}
	if len(stores) == 0 {
		c.Undecidedf(ruleNodes, key, fn.Decl.Pos(), "no statement that stores the replica list of a shard (a SlotOwner literal, an assignment to its Slave field) was found in %s", r.name)
		return
	}
	for _, s := range stores {
		if s.value == nil {
			c.Okf(ruleNodes, key, s.pos, "the SlotOwner starts with a nil replica list of its own")
			continue
		}
		if !isStringSlice(info.TypeOf(s.value)) {
			c.Undecidedf(ruleNodes, key, s.pos, "the value stored as the replica list, `%s`, is not a []string expression", c20src(c, s.value))
			continue
		}
		switch k, v := r.origin(s.value); k {
		case sliceFresh:
			c.Okf(ruleNodes, key, s.pos, "the replica list stored here is allocated by the storing expression itself")
		case sliceVar:
			switch res, w, why := r.renewedBetween(v, s.at, 4); res {
			case vPass:
				c.Okf(ruleNodes, key, s.pos, "between two stores of a replica list the slice `%s` is allocated anew: every SlotOwner gets a list of its own", v.Name())
			case vFail:
				c.Check(ruleNodes, key, s.pos, false, "the replica list stored in a SlotOwner must be a slice made for that shard, but `"+v.Name()+"` is never allocated between two stores (it is only re-sliced / appended to in place inside the loop)"+consequence, w...)
			default:
				c.Undecidedf(ruleNodes, key, s.pos, "cannot decide whether the replica list `%s` is a slice of the shard's own: %s", c20src(c, s.value), why)
			}
		default:
			c.Undecidedf(ruleNodes, key, s.pos, "where the replica list `%s` comes from is not analysed", c20src(c, s.value))
		}
	}
}
