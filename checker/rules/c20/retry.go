package c20

import (
	"go/ast"
	"go/types"
	"strings"

	"golang.org/x/tools/go/cfg"

	"rscheck/cfgq"
	"rscheck/core"
	"rscheck/pat"
	"rscheck/rules/c06/tt"
)

// ---------------------------------------------------------------------------
// R3: bounded retry

func retry(c *core.Ctx, fn, get *core.Fn) {
	info := fn.Pkg.TypesInfo
	view := tt.ViewOf(c.Program, fn, "c20retry", func(f *types.Func) bool { return f == fn.Obj })
	body := view.Body
	g := view.G
	x := view.X(c.Program)
	name := fn.Decl.Name.Name
	if len(fn.Decl.Type.Params.List) != 1 || len(fn.Decl.Type.Params.List[0].Names) != 1 {
		c.Undecidedf("R3.retry", name+"/depth", fn.Decl.Pos(), "expected one depth parameter")
		return
	}
	depth := info.Defs[fn.Decl.Type.Params.List[0].Names[0]]
	isDepth := func(e ast.Expr) bool { return identObj(info, e) == depth }
	recs := g.Points(g.HasCall(func(_ *ast.CallExpr, callee types.Object) bool { return callee == types.Object(fn.Obj) }))
	if len(recs) == 0 {
		c.Undecidedf("R3.retry", name+"/recursion", fn.Decl.Pos(), "no recursive retry found")
		return
	}
	// facts about the depth
	depthFact := func(f cfgq.Fact) (zero bool, ok bool) {
		for _, t := range []struct {
			p    string
			zero bool
		}{{"_d == 0", true}, {"_d <= 0", true}, {"_d < 1", true}, {"_d != 0", false}, {"_d > 0", false}, {"_d >= 1", false}} {
			if b := pat.Expr(t.p).Match(info, f.Expr, nil); b != nil && isDepth(b["_d"].(ast.Expr)) {
				return t.zero == f.Val, true
			}
		}
		return false, false
	}
	for _, rp := range recs {
		var call *ast.CallExpr
		for _, cl := range cfgq.ExecCalls(rp.Node()) {
			if core.CalleeFunc(info, cl) == fn.Obj {
				call = cl
			}
		}
		arg := ast.Unparen(call.Args[0])
		switch {
		case func() bool {
			b := pat.Expr("_d - 1").Match(info, arg, nil)
			return b != nil && isDepth(b["_d"].(ast.Expr))
		}():
			c.Okf("R3.retry", name+"/decrements", call.Pos(), "each retry passes depth-1")
		case isDepth(arg), pat.Expr("_d + _k").Match(info, arg, nil) != nil && core.Mentions(info, arg, depth):
			c.Failf("R3.retry", name+"/decrements", call.Pos(), "the retry passes `%s`, the depth never reaches 0: with no node reporting role:master the tool retries forever (hangs) instead of failing with an error", c.Src(arg))
		default:
			c.Undecidedf("R3.retry", name+"/decrements", call.Pos(), "retry argument `%s` not recognised", c.Src(arg))
		}
		ok, w := x.OnlyVia(cfgq.Point{}, rp.Node(), func(f cfgq.Fact) bool { z, ok := depthFact(f); return ok && !z })
		if !ok {
			// path-sensitive: is the retry reachable at all when depth == 0 is assumed (flags tracked)?
			rnode := rp.Node()
			w = x.Reach(tt.ReachQuery{From: cfgq.Point{B: g.CFG.Blocks[0], I: -1}, FromSucc: -1, Env: tt.Env{}, Target: func(n ast.Node) bool { return n == rnode },
				Assume: func(e ast.Expr) int {
					if z, isDepth := depthFact(cfgq.Fact{Expr: e, Val: true}); isDepth {
						if z {
							return 1
						}
						return -1
					}
					return 0
				}})
			ok = w == nil
		}
		mention := false
		for _, bk := range g.CFG.Blocks {
			if cond := x.Cond(bk); cond != nil && bk.Live && core.Mentions(info, cond, depth) {
				mention = true
			}
		}
		if !ok && mention {
			c.Undecidedf("R3.retry", name+"/stops-at-zero", call.Pos(), "the depth is tested, but the analysis cannot show that the retry is unreachable for depth == 0")
			continue
		}
		c.Check("R3.retry", name+"/stops-at-zero", call.Pos(), ok, "the retry must be reachable only while depth != 0: without a test of the depth the tool retries forever instead of failing with an error", w...)
	}
	// depth == 0 ends in an error
	n := 0
	for _, b := range g.CFG.Blocks {
		for si := range b.Succs {
			if !b.Live || !x.Establishes(b, si, func(f cfgq.Fact) bool { z, ok := depthFact(f); return ok && z }) {
				continue
			}
			n++
			w := g.Path(cfgq.Query{From: cfgq.Point{B: b.Succs[si]}, TargetExit: func(bk *cfg.Block, k cfgq.ExitKind) bool {
				if k == cfgq.ExitRet {
					return cfgq.ClassifyReturn(info, body, bk.Nodes[len(bk.Nodes)-1].(*ast.ReturnStmt)) != cfgq.RetErr
				}
				return k == cfgq.ExitFall
			}})
			c.Check("R3.retry", name+"/zero-is-error", b.Nodes[len(b.Nodes)-1].Pos(), w == nil, "when the retries are used up and no master was found the function must return an error: otherwise the tool syncs from a node that is not the master", w...)
		}
	}
	if n == 0 {
		c.Undecidedf("R3.retry", name+"/zero-is-error", fn.Decl.Pos(), "no test of the depth against 0 found")
	}
	// the initial depth
	if get != nil {
		ginfo := get.Pkg.TypesInfo
		okStart := false
		for _, call := range core.Calls(get.Decl.Body, ginfo, func(_ *ast.CallExpr, callee types.Object) bool { return callee == types.Object(fn.Obj) }) {
			okStart = len(call.Args) == 1 && core.IsFieldNamed(ginfo, tt.Resolve(ginfo, get.Decl.Body, call.Args[0], 3), sup, "maxRetries")
		}
		okConst, found := true, false
		pk := c.Pkg(pkgSup)
		for _, f := range pk.Syntax {
			ast.Inspect(f, func(nd ast.Node) bool {
				lit, ok := nd.(*ast.CompositeLit)
				if !ok || core.NamedTypeName(pk.TypesInfo.TypeOf(lit)) != sup {
					return true
				}
				for _, el := range lit.Elts {
					if kv, ok := el.(*ast.KeyValueExpr); ok {
						if k, ok := kv.Key.(*ast.Ident); ok && k.Name == "maxRetries" {
							found = true
							if v, isConst := core.IntConst(pk.TypesInfo, kv.Value); !isConst || v < 0 {
								okConst = false
							}
						}
					}
				}
				return true
			})
		}
		if !okStart || !found {
			c.Undecidedf("R3.retry", "GetSlotState/max-retries", get.Decl.Pos(), "GetSlotState does not start the retries with a constant s.maxRetries")
		} else {
			c.Check("R3.retry", "GetSlotState/max-retries", get.Decl.Pos(), okConst, "maxRetries must be a non-negative constant: a negative depth never meets the depth == 0 exit and the tool retries forever")
		}
	}
}

// ---------------------------------------------------------------------------
// R5: updateSlotTopology

func useAtStart(c *core.Ctx, fn *core.Fn) {
	info := fn.Pkg.TypesInfo
	view := tt.ViewOf(c.Program, fn, "c20start", nil)
	g := view.G
	x := view.X(c.Program)
	name := fn.Decl.Name.Name
	pts := g.Points(g.HasCall(func(_ *ast.CallExpr, callee types.Object) bool {
		f, ok := callee.(*types.Func)
		return ok && f.Name() == "GetSlotState" && f.Pkg() != nil && strings.HasSuffix(f.Pkg().Path(), pkgSup)
	}))
	if len(pts) != 1 {
		c.Undecidedf("R5.start", name+"/discovery", fn.Decl.Pos(), "expected one call of GetSlotState, found %d", len(pts))
		return
	}
	skipRule(c, fn, view, x, pts[0])
	syncOrder(c, fn)
	as, ok := pts[0].Node().(*ast.AssignStmt)
	if !ok || len(as.Lhs) != 2 {
		c.Undecidedf("R5.start", name+"/discovery", pts[0].Node().Pos(), "the results of GetSlotState are not bound")
		return
	}
	slot, serr := identObj(info, as.Lhs[0]), identObj(info, as.Lhs[1])
	if id, isId := as.Lhs[1].(*ast.Ident); isId && id.Name == "_" {
		c.Failf("R5.start", name+"/error-stops", as.Pos(), "the error of GetSlotState is discarded: when no master is found the syncer continues with a nil / stale node")
		return
	}
	direct := core.IsFieldNamed(info, as.Lhs[0], "DbSyncer", "node") // `ds.node, err = ...GetSlotState()`
	if serr == nil || slot == nil && !direct {
		c.Undecidedf("R5.start", name+"/discovery", as.Pos(), "the results of GetSlotState are bound in an unrecognised way")
		return
	}
	if direct {
		// the result is stored at once: what matters is that a failed discovery never returns normally
		isErrD := func(f cfgq.Fact) bool { is, nonNil := errFact(info, f, serr); return is && nonNil }
		tested, _ := g.MustPassToExit(pts[0], true, func(n ast.Node) bool { return false })
		var w2 []string
		n := 0
		for _, b := range g.CFG.Blocks {
			for si := range b.Succs {
				if b.Live && x.Establishes(b, si, isErrD) {
					n++
					if w2 == nil {
						w2 = g.Path(cfgq.Query{From: cfgq.Point{B: b.Succs[si]}, TargetExit: cfgq.NormalExit})
					}
				}
			}
		}
		_ = tested
		wNoTest := g.Path(cfgq.Query{From: pts[0], After: true, TargetExit: cfgq.NormalExit,
			AvoidEdge: func(b *cfg.Block, si int) bool {
				return x.Establishes(b, si, func(f cfgq.Fact) bool { is, _ := errFact(info, f, serr); return is })
			}})
		c.Check("R5.start", name+"/error-stops", as.Pos(), n > 0 && w2 == nil && wNoTest == nil, "the error of GetSlotState must be tested and a failed discovery must end in a no-return log: otherwise the syncer continues with a nil node after 'no master found'", append(w2, wNoTest...)...)
		c.Okf("R5.start", name+"/replaces-node", as.Pos(), "the discovered topology is stored in ds.node by the call itself")
		return
	}
	var sets []ast.Node
	for _, p := range g.Points(func(n ast.Node) bool {
		a, ok := n.(*ast.AssignStmt)
		return ok && len(a.Lhs) == 1 && len(a.Rhs) == 1 && core.IsFieldNamed(info, a.Lhs[0], "DbSyncer", "node") && identObj(info, a.Rhs[0]) == slot
	}) {
		sets = append(sets, p.Node())
	}
	noErr := func(f cfgq.Fact) bool { is, nonNil := errFact(info, f, serr); return is && !nonNil }
	isErr := func(f cfgq.Fact) bool { is, nonNil := errFact(info, f, serr); return is && nonNil }
	if len(sets) == 0 {
		c.Failf("R5.start", name+"/replaces-node", as.Pos(), "the discovered topology is never stored in ds.node: the sync keeps using the old source, which may have become a replica")
	}
	for _, s := range sets {
		ok, w := x.OnlyVia(cfgq.Point{}, s, noErr)
		c.Check("R5.start", name+"/error-stops", s.Pos(), ok, "ds.node may be replaced only when GetSlotState returned no error (the error path ends in a no-return log): otherwise the syncer continues with a nil node after 'no master found'", w...)
	}
	isSet := func(n ast.Node) bool {
		for _, s := range sets {
			if s == n {
				return true
			}
		}
		return false
	}
	w := g.Path(cfgq.Query{From: pts[0], After: true, Avoid: isSet, TargetExit: cfgq.NormalExit,
		AvoidEdge: func(b *cfg.Block, si int) bool { return false }})
	if len(sets) > 0 {
		// on the error edge the function must not return normally either
		var w2 []string
		for _, b := range g.CFG.Blocks {
			for si := range b.Succs {
				if b.Live && w2 == nil && x.Establishes(b, si, isErr) {
					w2 = g.Path(cfgq.Query{From: cfgq.Point{B: b.Succs[si]}, Avoid: isSet, TargetExit: cfgq.NormalExit})
				}
			}
		}
		c.Check("R5.start", name+"/replaces-node", as.Pos(), w == nil && w2 == nil, "after a discovery every normal path stores the result in ds.node, and a failed discovery never returns normally: otherwise Sync() goes on with the previous source, which may no longer be the master", append(w, w2...)...)
	}
}
