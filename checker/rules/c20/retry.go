package c20

import (
	"go/ast"
	"go/token"
	"go/types"
	"sort"
	"strings"

	"golang.org/x/tools/go/cfg"

	"rscheck/cfgq"
	"rscheck/core"
	"rscheck/pat"
	"rscheck/rules/c06/tt"
)

// ---------------------------------------------------------------------------
// R3: bounded retry

// retry returns the position of the `for` statement that implements the retry when the
// tail recursion is written as a counting loop (token.NoPos otherwise).
func retry(c *core.Ctx, fn, get *core.Fn) (retryLoop token.Pos) {
	info := fn.Pkg.TypesInfo
	view := tt.ViewOf(c.Program, fn, "c20retry", func(f *types.Func) bool { return f == fn.Obj })
	body := view.Body
	g := view.G
	x := view.X(c.Program)
	name := fn.Decl.Name.Name
	if len(fn.Decl.Type.Params.List) != 1 || len(fn.Decl.Type.Params.List[0].Names) != 1 {
		c.Undecidedf("R3.retry", name+"/depth", fn.Decl.Pos(), "expected one depth parameter")
		return
	}
	depth := info.Defs[fn.Decl.Type.Params.List[0].Names[0]]
	param := depth
	isDepth := func(e ast.Expr) bool { return identObj(info, e) == depth }
	recs := g.Points(g.HasCall(func(_ *ast.CallExpr, callee types.Object) bool { return callee == types.Object(fn.Obj) }))
	// the tail recursion written as a loop: `for left := depth; ; left-- { attempt; if left == 0 { return error }; sleep }`.
	// The counter plays the role of the depth, the step to the next iteration the role of the recursive call.
	var step ast.Node
	if len(recs) == 0 {
		lp := retryAsLoop(c, info, body, param, name)
		if lp == nil {
			c.Undecidedf("R3.retry", name+"/recursion", fn.Decl.Pos(), "no recursive retry found")
			return
		}
		if lp.undecided != "" {
			c.Undecidedf("R3.retry", name+"/decrements", lp.loop.Pos(), "%s", lp.undecided)
			return lp.loop.Pos()
		}
		retryLoop = lp.loop.Pos()
		depth = lp.counter
		if lp.never != "" {
			c.Failf("R3.retry", name+"/decrements", lp.loop.Pos(), "%s: the counter never reaches 0: with no node reporting role:master the tool retries forever (hangs) instead of failing with an error", lp.never)
		} else {
			c.Okf("R3.retry", name+"/decrements", lp.step.Pos(), "each retry decrements the counter by one")
			step = lp.step
			if pt, ok := tt.Find(g, step); ok {
				recs = append(recs, pt)
			}
		}
	}
	// facts about the depth
	depthFact := func(f cfgq.Fact) (zero bool, ok bool) {
		for _, t := range []struct {
			p    string
			zero bool
		}{{"_d == 0", true}, {"_d <= 0", true}, {"_d < 1", true}, {"_d != 0", false}, {"_d > 0", false}, {"_d >= 1", false}} {
			if b := pat.Expr(t.p).Match(info, f.Expr, nil); b != nil && isDepth(b["_d"].(ast.Expr)) {
				return t.zero == f.Val, true
			}
		}
		return false, false
	}
	for _, rp := range recs {
		var call ast.Node
		for _, cl := range cfgq.ExecCalls(rp.Node()) {
			if core.CalleeFunc(info, cl) == fn.Obj {
				call = cl
			}
		}
		arg := ast.Expr(nil)
		if cl, ok := call.(*ast.CallExpr); ok {
			arg = ast.Unparen(cl.Args[0])
		} else {
			call = step
		}
		switch {
		case arg == nil: // loop form: decided above
		case func() bool {
			b := pat.Expr("_d - 1").Match(info, arg, nil)
			return b != nil && isDepth(b["_d"].(ast.Expr))
		}():
			c.Okf("R3.retry", name+"/decrements", call.Pos(), "each retry passes depth-1")
		case func() bool { // depth + (-1), -1 + depth
			for _, ps := range []string{"_d + _k", "_k + _d"} {
				if b := pat.Expr(ps).Match(info, arg, nil); b != nil && isDepth(b["_d"].(ast.Expr)) {
					if k, isConst := core.IntConst(info, b["_k"].(ast.Expr)); isConst && k == -1 {
						return true
					}
				}
			}
			return false
		}():
			c.Okf("R3.retry", name+"/decrements", call.Pos(), "each retry passes depth-1")
		case isDepth(arg), func() bool { // depth + k / depth - k that does not decrease
			for _, t := range []struct {
				p    string
				sign int64
			}{{"_d + _k", 1}, {"_k + _d", 1}, {"_d - _k", -1}} {
				if b := pat.Expr(t.p).Match(info, arg, nil); b != nil && isDepth(b["_d"].(ast.Expr)) {
					if k, isConst := core.IntConst(info, b["_k"].(ast.Expr)); isConst && t.sign*k >= 0 {
						return true
					}
				}
			}
			return false
		}():
			c.Failf("R3.retry", name+"/decrements", call.Pos(), "the retry passes `%s`, the depth never reaches 0: with no node reporting role:master the tool retries forever (hangs) instead of failing with an error", c.Src(arg))
		case !tt.MentionsResolved(info, body, arg, depth, 4):
			// the depth handed on does not depend on the depth received: every further round starts
			// with the same value K. With K > 0 no round ever meets the depth == 0 exit
			if k, okK, why := fixedDepth(c, fn, body, call.(*ast.CallExpr), arg); !okK {
				c.Undecidedf("R3.retry", name+"/decrements", call.Pos(), "retry argument `%s` does not mention the received depth and its value is not known (%s)", c.Src(arg), why)
			} else if k > 0 {
				c.Failf("R3.retry", name+"/decrements", call.Pos(), "the retry passes `%s` (= %d), a value that does not depend on the depth it received: the argument must strictly decrease the received depth, here every further round starts with depth %d again and the depth never reaches 0: with no node reporting role:master the tool retries forever (hangs) instead of failing with an error", c.Src(arg), k, k)
			} else {
				c.Undecidedf("R3.retry", name+"/decrements", call.Pos(), "retry argument `%s` is the fixed value %d: not a counted retry", c.Src(arg), k)
			}
		default:
			c.Undecidedf("R3.retry", name+"/decrements", call.Pos(), "retry argument `%s` not recognised", c.Src(arg))
		}
		ok, w := x.OnlyVia(cfgq.Point{}, rp.Node(), func(f cfgq.Fact) bool { z, ok := depthFact(f); return ok && !z })
		if !ok {
			// path-sensitive: is the retry reachable at all when depth == 0 is assumed (flags tracked)?
			rnode := rp.Node()
			w = x.Reach(tt.ReachQuery{From: cfgq.Point{B: g.CFG.Blocks[0], I: -1}, FromSucc: -1, Env: tt.Env{}, Target: func(n ast.Node) bool { return n == rnode },
				Assume: func(e ast.Expr) int {
					if z, isDepth := depthFact(cfgq.Fact{Expr: e, Val: true}); isDepth {
						if z {
							return 1
						}
						return -1
					}
					return 0
				}})
			ok = w == nil
		}
		mention := false
		for _, bk := range g.CFG.Blocks {
			if cond := x.Cond(bk); cond != nil && bk.Live && core.Mentions(info, cond, depth) {
				mention = true
			}
		}
		if !ok && mention {
			c.Undecidedf("R3.retry", name+"/stops-at-zero", call.Pos(), "the depth is tested, but the analysis cannot show that the retry is unreachable for depth == 0")
			continue
		}
		c.Check("R3.retry", name+"/stops-at-zero", call.Pos(), ok, "the retry must be reachable only while depth != 0: without a test of the depth the tool retries forever instead of failing with an error", w...)
	}
	// depth == 0 ends in an error
	n := 0
	for _, b := range g.CFG.Blocks {
		for si := range b.Succs {
			if !b.Live || !x.Establishes(b, si, func(f cfgq.Fact) bool { z, ok := depthFact(f); return ok && z }) {
				continue
			}
			n++
			w := g.Path(cfgq.Query{From: cfgq.Point{B: b.Succs[si]}, TargetExit: func(bk *cfg.Block, k cfgq.ExitKind) bool {
				if k == cfgq.ExitRet {
					return cfgq.ClassifyReturn(info, body, bk.Nodes[len(bk.Nodes)-1].(*ast.ReturnStmt)) != cfgq.RetErr
				}
				return k == cfgq.ExitFall
			}})
			c.Check("R3.retry", name+"/zero-is-error", b.Nodes[len(b.Nodes)-1].Pos(), w == nil, "when the retries are used up and no master was found the function must return an error: otherwise the tool syncs from a node that is not the master", w...)
		}
	}
	if n == 0 {
		c.Undecidedf("R3.retry", name+"/zero-is-error", fn.Decl.Pos(), "no test of the depth against 0 found")
	}
	// the initial depth
	if get != nil {
		ginfo := get.Pkg.TypesInfo
		okStart := false
		for _, call := range core.Calls(get.Decl.Body, ginfo, func(_ *ast.CallExpr, callee types.Object) bool { return callee == types.Object(fn.Obj) }) {
			okStart = len(call.Args) == 1 && core.IsFieldNamed(ginfo, tt.Resolve(ginfo, get.Decl.Body, call.Args[0], 3), sup, "maxRetries")
		}
		okConst, found := true, false
		pk := c.Pkg(pkgSup)
		for _, f := range pk.Syntax {
			ast.Inspect(f, func(nd ast.Node) bool {
				lit, ok := nd.(*ast.CompositeLit)
				if !ok || core.NamedTypeName(pk.TypesInfo.TypeOf(lit)) != sup {
					return true
				}
				for _, el := range lit.Elts {
					if kv, ok := el.(*ast.KeyValueExpr); ok {
						if k, ok := kv.Key.(*ast.Ident); ok && k.Name == "maxRetries" {
							found = true
							if v, isConst := core.IntConst(pk.TypesInfo, kv.Value); !isConst || v < 0 {
								okConst = false
							}
						}
					}
				}
				return true
			})
		}
		if !okStart || !found {
			c.Undecidedf("R3.retry", "GetSlotState/max-retries", get.Decl.Pos(), "GetSlotState does not start the retries with a constant s.maxRetries")
		} else {
			c.Check("R3.retry", "GetSlotState/max-retries", get.Decl.Pos(), okConst, "maxRetries must be a non-negative constant: a negative depth never meets the depth == 0 exit and the tool retries forever")
		}
	}
	return retryLoop
}

// fixedDepth evaluates a retry argument that does not mention the received depth: integer
// constants, + - *, conversions, single-definition locals, and fields of the receiver the retry is
// called on whose value is the same constant in every composite literal of the supervisor type and
// which are assigned nowhere else in the package.
func fixedDepth(c *core.Ctx, fn *core.Fn, body *ast.BlockStmt, call *ast.CallExpr, arg ast.Expr) (int64, bool, string) {
	info := fn.Pkg.TypesInfo
	var recv types.Object
	if fn.Decl.Recv != nil && len(fn.Decl.Recv.List) == 1 && len(fn.Decl.Recv.List[0].Names) == 1 {
		recv = info.Defs[fn.Decl.Recv.List[0].Names[0]]
	}
	// the retry runs on the same supervisor
	if sel, ok := ast.Unparen(call.Fun).(*ast.SelectorExpr); !ok || recv == nil || identObj(info, tt.Resolve(info, body, sel.X, 3)) != recv {
		return 0, false, "the retry is not called on the receiver itself"
	}
	why := ""
	var eval func(e ast.Expr, depth int) (int64, bool)
	eval = func(e ast.Expr, depth int) (int64, bool) {
		e = ast.Unparen(e)
		if k, ok := core.IntConst(info, e); ok {
			return k, true
		}
		if depth == 0 {
			why = "expression too deep"
			return 0, false
		}
		switch v := e.(type) {
		case *ast.BinaryExpr:
			a, okA := eval(v.X, depth-1)
			b, okB := eval(v.Y, depth-1)
			if !okA || !okB {
				return 0, false
			}
			switch v.Op {
			case token.ADD:
				return a + b, true
			case token.SUB:
				return a - b, true
			case token.MUL:
				return a * b, true
			}
			why = "operator " + v.Op.String()
			return 0, false
		case *ast.UnaryExpr:
			if a, ok := eval(v.X, depth-1); ok && (v.Op == token.SUB || v.Op == token.ADD) {
				if v.Op == token.SUB {
					return -a, true
				}
				return a, true
			}
			return 0, false
		case *ast.CallExpr:
			if tv, ok := info.Types[v.Fun]; ok && tv.IsType() && len(v.Args) == 1 {
				if b, isBasic := tv.Type.Underlying().(*types.Basic); isBasic && b.Info()&types.IsInteger != 0 {
					return eval(v.Args[0], depth-1)
				}
			}
			why = "a call"
			return 0, false
		case *ast.Ident:
			if d, ok := tt.SingleDef(info, body, v); ok && d.Rhs != nil && d.Index == -1 && d.Range == nil {
				return eval(d.Rhs, depth-1)
			}
			why = "`" + v.Name + "` is not a single-definition local"
			return 0, false
		case *ast.SelectorExpr:
			fld := core.FieldOf(info, v)
			if fld == nil || identObj(info, tt.Resolve(info, body, v.X, 3)) != recv {
				why = "`" + c.Src(v) + "` is not a field of the receiver"
				return 0, false
			}
			k, ok, w := fieldConst(c, fld)
			if !ok {
				why = w
			}
			return k, ok
		}
		why = "`" + c.Src(e) + "`"
		return 0, false
	}
	k, ok := eval(arg, 6)
	return k, ok, why
}

// fieldConst: the integer field fld of the supervisor has the same constant value in every
// composite literal of its struct (0 when the literal omits it) and is written nowhere else in
// the non-test files of the package.
func fieldConst(c *core.Ctx, fld *types.Var) (int64, bool, string) {
	pk := c.Pkg(pkgSup)
	if pk == nil || fld.Pkg() != pk.Types {
		return 0, false, "field `" + fld.Name() + "` is not declared in the supervisor's package"
	}
	info := pk.TypesInfo
	var vals []int64
	bad := ""
	for _, f := range pk.Syntax {
		if core.IsTestFile(c.Fset, f) {
			continue
		}
		ast.Inspect(f, func(nd ast.Node) bool {
			switch v := nd.(type) {
			case *ast.CompositeLit:
				lt := info.TypeOf(v)
				if lt == nil {
					return true
				}
				st, ok := lt.Underlying().(*types.Struct)
				if !ok {
					return true
				}
				idx := -1
				for i := 0; i < st.NumFields(); i++ {
					if st.Field(i) == fld {
						idx = i
					}
				}
				if idx < 0 {
					return true
				}
				val, set := int64(0), false
				for i, el := range v.Elts {
					var e ast.Expr
					if kv, isKV := el.(*ast.KeyValueExpr); isKV {
						if k, isId := kv.Key.(*ast.Ident); isId && info.Uses[k] == types.Object(fld) {
							e = kv.Value
						}
					} else if i == idx {
						e = el
					}
					if e != nil {
						k, isConst := core.IntConst(info, e)
						if !isConst {
							bad = "field `" + fld.Name() + "` is initialised with the non-constant `" + c.Src(e) + "`"
						}
						val, set = k, true
					}
				}
				_ = set
				vals = append(vals, val)
			case *ast.AssignStmt:
				for _, l := range v.Lhs {
					if core.FieldOf(info, l) == fld {
						bad = "field `" + fld.Name() + "` is assigned (`" + c.Src(v) + "`)"
					}
				}
			case *ast.IncDecStmt:
				if core.FieldOf(info, v.X) == fld {
					bad = "field `" + fld.Name() + "` is modified (`" + c.Src(v) + "`)"
				}
			case *ast.UnaryExpr:
				if v.Op == token.AND && core.FieldOf(info, v.X) == fld {
					bad = "the address of field `" + fld.Name() + "` is taken"
				}
			}
			return true
		})
	}
	if bad != "" {
		return 0, false, bad
	}
	if len(vals) == 0 {
		return 0, false, "no composite literal initialises field `" + fld.Name() + "`"
	}
	for _, v := range vals[1:] {
		if v != vals[0] {
			return 0, false, "field `" + fld.Name() + "` has different initial values"
		}
	}
	return vals[0], true, ""
}

type loopRetry struct {
	loop      *ast.ForStmt
	counter   types.Object
	step      ast.Node // the decrement
	never     string   // why the counter never decreases
	undecided string
}

// retryAsLoop finds the `for` loop without condition (not nested in another loop) whose
// counter starts as the depth parameter.
func retryAsLoop(c *core.Ctx, info *types.Info, body *ast.BlockStmt, depth types.Object, name string) *loopRetry {
	var loops []*ast.ForStmt
	var visit func(n ast.Node)
	visit = func(n ast.Node) {
		ast.Inspect(n, func(m ast.Node) bool {
			switch v := m.(type) {
			case *ast.FuncLit:
				return false
			case *ast.ForStmt:
				loops = append(loops, v)
				return false
			case *ast.RangeStmt:
				return false
			}
			return true
		})
	}
	visit(body)
	if len(loops) != 1 {
		return nil
	}
	lp := &loopRetry{loop: loops[0]}
	fs := lp.loop
	// depth-derived variables: the parameter itself or a variable initialised with it
	derived := func(o types.Object) bool {
		if o == nil {
			return false
		}
		if o == depth {
			return true
		}
		n := 0
		ok := false
		for _, d := range tt.DefsOf(info, body, o) {
			if isStep(info, d.Stmt, o) != 0 {
				continue
			}
			n++
			ok = d.Rhs != nil && d.Index == -1 && d.Range == nil && identObj(info, d.Rhs) == depth
		}
		return n == 1 && ok
	}
	// the variables the loop tests against 0
	cands := map[types.Object]bool{}
	ast.Inspect(fs, func(n ast.Node) bool {
		if be, ok := n.(*ast.BinaryExpr); ok {
			for _, pair := range [][2]ast.Expr{{be.X, be.Y}, {be.Y, be.X}} {
				if v, isInt := core.IntConst(info, pair[1]); isInt && (v == 0 || v == 1) {
					if o := identObj(info, pair[0]); derived(o) {
						cands[o] = true
					}
				}
			}
		}
		return true
	})
	if init, ok := fs.Init.(*ast.AssignStmt); ok && len(init.Lhs) == 1 && len(init.Rhs) == 1 && identObj(info, init.Rhs[0]) == depth {
		// the loop's own variable, unless it is a mere second name of the depth that the loop never
		// tests (then the depth itself is the counter, if it is tested)
		if iv := identObj(info, init.Lhs[0]); cands[iv] || len(cands) == 0 {
			cands[iv] = true
		}
	}
	delete(cands, nil)
	if len(cands) != 1 {
		return nil
	}
	for o := range cands {
		lp.counter = o
	}
	if fs.Cond != nil {
		if bv, isConst := tt.BoolConst(info, fs.Cond); !isConst || !bv {
			lp.undecided = "the retry is a loop with the condition `" + c.Src(fs.Cond) + "`: that form of the bound is not analysed"
			return lp
		}
	}
	// modifications of the counter inside the loop
	var steps []ast.Node
	var kinds []int
	other := false
	ast.Inspect(fs, func(n ast.Node) bool {
		if n == ast.Node(fs.Init) {
			return false
		}
		switch st := n.(type) {
		case *ast.IncDecStmt, *ast.AssignStmt:
			if k := isStep(info, st, lp.counter); k != 0 {
				steps = append(steps, st)
				kinds = append(kinds, k)
			} else if as, ok := st.(*ast.AssignStmt); ok {
				for _, l := range as.Lhs {
					if identObj(info, l) == lp.counter {
						other = true
					}
				}
			}
		case *ast.UnaryExpr:
			if st.Op == token.AND && identObj(info, st.X) == lp.counter {
				other = true
			}
		}
		return true
	})
	switch {
	case other || len(steps) > 1:
		lp.undecided = "the retry counter is modified in a way that is not analysed"
	case len(steps) == 0:
		lp.never = "the retry loop never changes its counter `" + lp.counter.Name() + "`"
	case kinds[0] > 0:
		lp.never = "the retry loop increases its counter (`" + c.Src(steps[0]) + "`)"
	default:
		lp.step = steps[0]
		// the decrement is the loop's post statement, or the last statement of a body without `continue`
		if lp.step != ast.Node(fs.Post) {
			last := len(fs.Body.List) > 0 && ast.Node(fs.Body.List[len(fs.Body.List)-1]) == lp.step
			hasContinue := false
			var walk func(n ast.Node)
			walk = func(n ast.Node) {
				ast.Inspect(n, func(m ast.Node) bool {
					switch v := m.(type) {
					case *ast.FuncLit, *ast.ForStmt, *ast.RangeStmt:
						return m == n
					case *ast.BranchStmt:
						if v.Tok == token.CONTINUE || v.Tok == token.GOTO {
							hasContinue = true
						}
					}
					return true
				})
			}
			walk(fs.Body)
			// a labelled continue inside an inner loop would also skip the decrement
			ast.Inspect(fs.Body, func(m ast.Node) bool {
				if b, ok := m.(*ast.BranchStmt); ok && b.Label != nil && b.Tok == token.CONTINUE {
					hasContinue = true
				}
				return true
			})
			if !last || hasContinue {
				lp.undecided = "the retry counter is not decremented in the loop's post statement"
			}
		}
	}
	return lp
}

// isStep: st changes the variable o by a constant: -1 for `o--`, `o -= 1`, `o = o - 1`, +1 for an
// increase by a positive constant, 0 when st is not such a statement.
func isStep(info *types.Info, st ast.Node, o types.Object) int {
	switch v := st.(type) {
	case *ast.IncDecStmt:
		if identObj(info, v.X) != o {
			return 0
		}
		if v.Tok == token.DEC {
			return -1
		}
		return 1
	case *ast.AssignStmt:
		if len(v.Lhs) != 1 || len(v.Rhs) != 1 || identObj(info, v.Lhs[0]) != o {
			return 0
		}
		one := func(e ast.Expr) bool { k, ok := core.IntConst(info, e); return ok && k == 1 }
		pos := func(e ast.Expr) bool { k, ok := core.IntConst(info, e); return ok && k > 0 }
		switch v.Tok {
		case token.SUB_ASSIGN:
			if one(v.Rhs[0]) {
				return -1
			}
		case token.ADD_ASSIGN:
			if pos(v.Rhs[0]) {
				return 1
			}
		case token.ASSIGN:
			if be, ok := ast.Unparen(v.Rhs[0]).(*ast.BinaryExpr); ok && identObj(info, be.X) == o {
				if be.Op == token.SUB && one(be.Y) {
					return -1
				}
				if be.Op == token.ADD && pos(be.Y) {
					return 1
				}
			}
		}
	}
	return 0
}

// ---------------------------------------------------------------------------
// R5: updateSlotTopology

func useAtStart(c *core.Ctx, fn *core.Fn) {
	info := fn.Pkg.TypesInfo
	view := tt.ViewOf(c.Program, fn, "c20start", nil)
	g := view.G
	x := view.X(c.Program)
	name := fn.Decl.Name.Name
	pts := g.Points(g.HasCall(func(_ *ast.CallExpr, callee types.Object) bool {
		f, ok := callee.(*types.Func)
		return ok && f.Name() == "GetSlotState" && f.Pkg() != nil && strings.HasSuffix(f.Pkg().Path(), pkgSup)
	}))
	if len(pts) != 1 {
		c.Undecidedf("R5.start", name+"/discovery", fn.Decl.Pos(), "expected one call of GetSlotState, found %d", len(pts))
		return
	}
	skipRule(c, fn, view, x, pts[0])
	syncOrder(c, fn)
	as, ok := pts[0].Node().(*ast.AssignStmt)
	if !ok || len(as.Lhs) != 2 {
		c.Undecidedf("R5.start", name+"/discovery", pts[0].Node().Pos(), "the results of GetSlotState are not bound")
		return
	}
	slot, serr := identObj(info, as.Lhs[0]), identObj(info, as.Lhs[1])
	if id, isId := as.Lhs[1].(*ast.Ident); isId && id.Name == "_" {
		c.Failf("R5.start", name+"/error-stops", as.Pos(), "the error of GetSlotState is discarded: when no master is found the syncer continues with a nil / stale node")
		return
	}
	direct := core.IsFieldNamed(info, as.Lhs[0], "DbSyncer", "node") // `ds.node, err = ...GetSlotState()`
	if serr == nil || slot == nil && !direct {
		c.Undecidedf("R5.start", name+"/discovery", as.Pos(), "the results of GetSlotState are bound in an unrecognised way")
		return
	}
	if direct {
		// the result is stored at once: what matters is that a failed discovery never returns normally
		isErrD := func(f cfgq.Fact) bool { is, nonNil := errFact(info, f, serr); return is && nonNil }
		tested, _ := g.MustPassToExit(pts[0], true, func(n ast.Node) bool { return false })
		var w2 []string
		n := 0
		for _, b := range g.CFG.Blocks {
			for si := range b.Succs {
				if b.Live && x.Establishes(b, si, isErrD) {
					n++
					if w2 == nil {
						w2 = g.Path(cfgq.Query{From: cfgq.Point{B: b.Succs[si]}, TargetExit: cfgq.NormalExit})
					}
				}
			}
		}
		_ = tested
		wNoTest := g.Path(cfgq.Query{From: pts[0], After: true, TargetExit: cfgq.NormalExit,
			AvoidEdge: func(b *cfg.Block, si int) bool {
				return x.Establishes(b, si, func(f cfgq.Fact) bool { is, _ := errFact(info, f, serr); return is })
			}})
		c.Check("R5.start", name+"/error-stops", as.Pos(), n > 0 && w2 == nil && wNoTest == nil, "the error of GetSlotState must be tested and a failed discovery must end in a no-return log: otherwise the syncer continues with a nil node after 'no master found'", append(w2, wNoTest...)...)
		c.Okf("R5.start", name+"/replaces-node", as.Pos(), "the discovered topology is stored in ds.node by the call itself")
		return
	}
	var sets []ast.Node
	for _, p := range g.Points(func(n ast.Node) bool {
		a, ok := n.(*ast.AssignStmt)
		return ok && len(a.Lhs) == 1 && len(a.Rhs) == 1 && core.IsFieldNamed(info, a.Lhs[0], "DbSyncer", "node") && identObj(info, a.Rhs[0]) == slot
	}) {
		sets = append(sets, p.Node())
	}
	noErr := func(f cfgq.Fact) bool { is, nonNil := errFact(info, f, serr); return is && !nonNil }
	isErr := func(f cfgq.Fact) bool { is, nonNil := errFact(info, f, serr); return is && nonNil }
	if len(sets) == 0 {
		// the discovered node may reach ds.node in another form (through a helper, a dereference, a
		// copy): only when it is not handed on at all is it provably dropped
		handed := false
		copied := map[string]bool{} // ds.node.F = slot.F
		ast.Inspect(view.Body, func(n ast.Node) bool {
			switch st := n.(type) {
			case *ast.AssignStmt:
				if st != as {
					for i, r := range st.Rhs {
						if !core.Mentions(info, r, slot) {
							continue
						}
						if len(st.Lhs) == len(st.Rhs) {
							if id, ok := st.Lhs[i].(*ast.Ident); ok && id.Name == "_" {
								continue // discarded
							}
						}
						// a field-wise copy: ds.node.Source = slot.Source
						if len(st.Lhs) == len(st.Rhs) {
							ls, lok := ast.Unparen(st.Lhs[i]).(*ast.SelectorExpr)
							rs, rok := ast.Unparen(r).(*ast.SelectorExpr)
							if lok && rok && ls.Sel.Name == rs.Sel.Name && identObj(info, rs.X) == slot && core.IsFieldNamed(info, ls.X, "DbSyncer", "node") {
								copied[ls.Sel.Name] = true
								continue
							}
						}
						handed = true
					}
				}
			case *ast.CallExpr:
				for _, a := range st.Args {
					if core.Mentions(info, a, slot) {
						if f := core.CalleeFunc(info, st); f == nil || f.Pkg() == nil || !strings.Contains(f.Pkg().Path(), "/libs/log") {
							handed = true
						}
					}
				}
			case *ast.ReturnStmt:
				for _, r := range st.Results {
					if core.Mentions(info, r, slot) {
						handed = true
					}
				}
			}
			return !handed
		})
		if !handed && len(copied) > 0 && !(copied["Source"] && copied["Slaves"]) {
			c.Failf("R5.start", name+"/replaces-node", as.Pos(), "only a part of the discovered topology is stored in ds.node (fields copied: %v): Source and Slaves must both be replaced, otherwise the sync continues with a mixture of the old and the new topology", keysOf(copied))
			return
		}
		if handed || len(copied) > 0 {
			c.Undecidedf("R5.start", name+"/replaces-node", as.Pos(), "the discovered topology is handed on in a form that is not analysed")
			return
		}
		c.Failf("R5.start", name+"/replaces-node", as.Pos(), "the discovered topology is never stored in ds.node: the sync keeps using the old source, which may have become a replica")
	}
	for _, s := range sets {
		ok, w := x.OnlyVia(cfgq.Point{}, s, noErr)
		c.Check("R5.start", name+"/error-stops", s.Pos(), ok, "ds.node may be replaced only when GetSlotState returned no error (the error path ends in a no-return log): otherwise the syncer continues with a nil node after 'no master found'", w...)
	}
	isSet := func(n ast.Node) bool {
		for _, s := range sets {
			if s == n {
				return true
			}
		}
		return false
	}
	w := g.Path(cfgq.Query{From: pts[0], After: true, Avoid: isSet, TargetExit: cfgq.NormalExit,
		AvoidEdge: func(b *cfg.Block, si int) bool { return false }})
	if len(sets) > 0 {
		// on the error edge the function must not return normally either
		var w2 []string
		for _, b := range g.CFG.Blocks {
			for si := range b.Succs {
				if b.Live && w2 == nil && x.Establishes(b, si, isErr) {
					w2 = g.Path(cfgq.Query{From: cfgq.Point{B: b.Succs[si]}, Avoid: isSet, TargetExit: cfgq.NormalExit})
				}
			}
		}
		c.Check("R5.start", name+"/replaces-node", as.Pos(), w == nil && w2 == nil, "after a discovery every normal path stores the result in ds.node, and a failed discovery never returns normally: otherwise Sync() goes on with the previous source, which may no longer be the master", append(w, w2...)...)
	}
}

func keysOf(m map[string]bool) []string {
	var out []string
	for k := range m {
		out = append(out, k)
	}
	sort.Strings(out)
	return out
}
