package c20

import (
	"fmt"
	"go/ast"
	"go/constant"
	"go/token"
	"go/types"
	"strings"

	"golang.org/x/tools/go/cfg"

	"rscheck/cfgq"
	"rscheck/core"
	"rscheck/pat"
	"rscheck/rules/c06/tt"
)

// ---------------------------------------------------------------------------
// R1 selection / R2 partition / R4 probing: recursiveGetSlotState

func isNodeField(info *types.Info, e ast.Expr, field string) (base ast.Expr, ok bool) {
	s, isSel := ast.Unparen(e).(*ast.SelectorExpr)
	if !isSel {
		return nil, false
	}
	f := core.FieldOf(info, s)
	if f == nil || f.Name() != field || f.Pkg() == nil || !strings.HasSuffix(f.Pkg().Path(), "/dbSync/slot") {
		return nil, false
	}
	return s.X, true
}

func identObj(info *types.Info, e ast.Expr) types.Object {
	if e == nil {
		return nil
	}
	id, ok := ast.Unparen(e).(*ast.Ident)
	if !ok {
		return nil
	}
	return core.ObjOf(info, id)
}

// probeHost: callee probes one node (getRedisNodeState itself, or a same-package helper that only
// forwards one of its parameters to it); returns the index of the host argument.
func probeHost(c *core.Ctx, info *types.Info, node *core.Fn, callee types.Object) (int, bool) {
	if callee == types.Object(node.Obj) {
		return 0, true
	}
	f, _ := callee.(*types.Func)
	h := c.FnOf(f)
	if h == nil || h.Decl.Body == nil || h.Pkg.TypesInfo != info || len(h.Decl.Body.List) != 1 {
		return 0, false
	}
	r, ok := h.Decl.Body.List[0].(*ast.ReturnStmt)
	if !ok || len(r.Results) != 1 {
		return 0, false
	}
	call, ok := ast.Unparen(r.Results[0]).(*ast.CallExpr)
	if !ok || core.Callee(info, call) != types.Object(node.Obj) || len(call.Args) == 0 {
		return 0, false
	}
	k := 0
	for _, fl := range h.Decl.Type.Params.List {
		for _, n := range fl.Names {
			if identObj(info, call.Args[0]) == info.Defs[n] {
				return k, true
			}
			k++
		}
	}
	return 0, false
}

func selection(c *core.Ctx, rec, node *core.Fn, trueNil bool) {
	info := rec.Pkg.TypesInfo
	name := rec.Decl.Name.Name
	isProbe := func(_ *ast.CallExpr, callee types.Object) bool { _, ok := probeHost(c, info, node, callee); return ok }
	// the probing loop lives in recursiveGetSlotState or in a same-package helper it calls
	fn := rec
	opaque := func(f *types.Func) bool { return f == node.Obj || f == rec.Obj }
	recView := tt.ViewOf(c.Program, rec, "c20", opaque)
	var viaCall *ast.CallExpr
	if len(core.Calls(recView.Body, info, isProbe)) == 0 {
		for _, call := range core.Calls(recView.Body, info, func(*ast.CallExpr, types.Object) bool { return true }) {
			if h := c.FnOf(core.CalleeFunc(info, call)); h != nil && h.Decl.Body != nil && h.Pkg.TypesInfo == info && h.Obj != rec.Obj && len(core.Calls(h.Decl.Body, info, isProbe)) > 0 {
				fn, viaCall = h, call
			}
		}
	}
	view := tt.ViewOf(c.Program, fn, "c20", opaque)
	body := view.Body
	g := view.G
	x := view.X(c.Program)
	// objects seen through pointer aliases: with `p := &v` (the pointer parameter of an inlined
	// helper), `p.f` is `v.f` and `*p` is `v`
	var target func(e ast.Expr, depth int) types.Object
	target = func(e ast.Expr, depth int) types.Object {
		e = ast.Unparen(e)
		if st, ok := e.(*ast.StarExpr); ok {
			return target(st.X, depth)
		}
		id, ok := e.(*ast.Ident)
		if !ok {
			return nil
		}
		if depth > 0 {
			d, ok := tt.SingleDef(info, body, id)
			if !ok {
				// declared first (`var p *T`, nil) and assigned once
				var assigns []tt.Def
				for _, dd := range tt.DefsOf(info, body, core.ObjOf(info, id)) {
					if _, isDecl := dd.Stmt.(*ast.ValueSpec); isDecl && dd.Rhs == nil {
						continue
					}
					assigns = append(assigns, dd)
				}
				if _, isPtr := info.TypeOf(id).(*types.Pointer); isPtr && len(assigns) == 1 {
					d, ok = assigns[0], true
				}
			}
			if ok && d.Rhs != nil && d.Index == -1 && d.Range == nil {
				if u, ok := ast.Unparen(d.Rhs).(*ast.UnaryExpr); ok && u.Op == token.AND {
					if t := target(u.X, depth-1); t != nil {
						return t
					}
				}
				if _, isId := ast.Unparen(d.Rhs).(*ast.Ident); isId {
					if _, isPtr := info.TypeOf(id).(*types.Pointer); isPtr {
						return target(d.Rhs, depth-1) // a copy of a pointer
					}
				}
			}
		}
		return core.ObjOf(info, id)
	}
	baseObj := func(e ast.Expr) types.Object { return target(e, 3) }
	boolObj := func(e ast.Expr) types.Object {
		if o := tt.BoolLocal(info, e); o != nil {
			if _, isPtrDeref := ast.Unparen(e).(*ast.StarExpr); !isPtrDeref {
				return o
			}
		}
		if _, isDeref := ast.Unparen(e).(*ast.StarExpr); isDeref {
			if v, ok := target(e, 3).(*types.Var); ok {
				if b, ok := v.Type().Underlying().(*types.Basic); ok && b.Kind() == types.Bool {
					return v
				}
			}
		}
		return nil
	}
	// the probe
	calls := core.Calls(body, info, isProbe)
	if len(calls) != 1 {
		c.Undecidedf("R1.select", name+"/probe", fn.Decl.Pos(), "expected one call of getRedisNodeState, found %d", len(calls))
		return
	}
	pp, _ := tt.Find(g, calls[0])
	pas, ok := pp.Node().(*ast.AssignStmt)
	loop := x.LoopOf(calls[0]) // a range loop or a counting loop over the host list
	hostList, isElem := tt.LoopElem(info, loop)
	hostIdx, _ := probeHost(c, info, node, core.Callee(info, calls[0]))
	if !ok || len(pas.Lhs) != 2 || loop == nil || hostList == nil || len(calls[0].Args) <= hostIdx {
		c.Undecidedf("R1.select", name+"/probe", calls[0].Pos(), "the probe is not `isMaster, err = getRedisNodeState(host, ...)` inside a range loop")
		return
	}
	isMaster, perr, host := identObj(info, pas.Lhs[0]), identObj(info, pas.Lhs[1]), identObj(info, calls[0].Args[hostIdx])
	// the probed host is the loop's element, possibly through single-assignment copies
	// (`addr := known[idx]`, the parameter of an inlined forwarding helper)
	hostRoot := tt.Resolve(info, body, calls[0].Args[hostIdx], 5)
	hostIsElem := isElem(calls[0].Args[hostIdx]) || isElem(hostRoot)
	isHost := func(e ast.Expr) bool {
		if e == nil {
			return false
		}
		r := tt.Resolve(info, body, e, 5)
		return host != nil && identObj(info, e) != nil && identObj(info, e) == host || tt.SameExpr(info, r, hostRoot)
	}
	// the probed host may be written as the element expression itself (`probe(hosts[i], ..)`)
	if isMaster == nil || !hostIsElem {
		c.Undecidedf("R1.select", name+"/probe", calls[0].Pos(), "the probed host is not the loop's element or the answer is not kept in a variable")
		return
	}
	masterFact := func(f cfgq.Fact) bool { return boolObj(f.Expr) == isMaster && f.Val }
	noErrFact := func(f cfgq.Fact) bool {
		is, nonNil := errFact(info, f, perr)
		return perr != nil && is && !nonNil
	}
	// the carriers of the result: <result>.Source / <result>.Slaves themselves, or the locals that
	// are stored into these fields once the loop is over (values carried in locals)
	var res types.Object
	srcVars, slvVars := map[types.Object]bool{}, map[types.Object]bool{}
	core.Inspect(body, func(n ast.Node) bool {
		as, ok := n.(*ast.AssignStmt)
		if !ok || len(as.Lhs) != len(as.Rhs) {
			return true
		}
		for i := range as.Lhs {
			for fld, vars := range map[string]map[types.Object]bool{"Source": srcVars, "Slaves": slvVars} {
				if base, ok := isNodeField(info, as.Lhs[i], fld); ok && baseObj(base) != nil {
					res = baseObj(base)
					if v, isVar := identObj(info, as.Rhs[i]).(*types.Var); isVar && !v.IsField() && x.LoopOf(as) != ast.Stmt(loop) && !isHost(as.Rhs[i]) {
						vars[v] = true
					}
				}
			}
		}
		return true
	})
	isCarrier := func(e ast.Expr, fld string, vars map[types.Object]bool) bool {
		if base, ok := isNodeField(info, e, fld); ok {
			return res != nil && baseObj(base) == res
		}
		o := identObj(info, e)
		return o != nil && vars[o]
	}
	var sources, appends, keeps []ast.Node
	srcValue := map[ast.Node]ast.Expr{} // what a source assignment stores
	for _, p := range g.Points(func(n ast.Node) bool { _, ok := n.(*ast.AssignStmt); return ok }) {
		as := p.Node().(*ast.AssignStmt)
		if len(as.Lhs) != len(as.Rhs) || x.LoopOf(as) != ast.Stmt(loop) {
			continue
		}
		for i := range as.Lhs { // each pair of a (tuple) assignment
			if isCarrier(as.Lhs[i], "Source", srcVars) {
				sources = append(sources, as)
				srcValue[as] = as.Rhs[i]
				continue
			}
			if l0, h, ok := appendOf(as.Rhs[i]); ok && isCarrier(as.Lhs[i], "Slaves", slvVars) && pat.Same(info, as.Lhs[i], l0) {
				if isHost(h) {
					appends = append(appends, as)
				} else if isCarrier(h, "Source", srcVars) {
					keeps = append(keeps, as)
				}
			}
		}
	}
	if len(sources) == 0 || res == nil {
		c.Undecidedf("R1.select", name+"/source", loop.Pos(), "no assignment to the Source of the result inside the probing loop")
		return
	}
	for _, s := range sources {
		as := s.(*ast.AssignStmt)
		c.Check("R1.select", name+"/assigns-probed-host", as.Pos(), isHost(srcValue[as]), "the node made Source must be the host that was just probed, `"+c.Src(as)+"` selects another value")
		ok, w := x.OnlyVia(cfgq.Point{}, as, masterFact)
		c.Check("R1.select", name+"/only-master", as.Pos(), ok, "Source may be assigned only when the probe answered master: otherwise a replica, an unreachable node or a node without role is chosen as the sync source", w...)
		ok2, w2 := x.OnlyVia(cfgq.Point{}, as, noErrFact)
		c.Check("R1.select", name+"/only-without-error", as.Pos(), ok2 || trueNil, "Source may be assigned only when the probe returned no error (or getRedisNodeState never answers true with an error): otherwise a node that failed the probe is chosen", w2...)
	}
	// the found flag
	var flag types.Object
	var flagSets []ast.Node
	for _, p := range g.Points(func(n ast.Node) bool { _, ok := n.(*ast.AssignStmt); return ok }) {
		as := p.Node().(*ast.AssignStmt)
		if len(as.Lhs) != len(as.Rhs) || x.LoopOf(as) != ast.Stmt(loop) {
			continue
		}
		for i := range as.Lhs {
			o := boolObj(as.Lhs[i])
			if o == nil || o == isMaster {
				continue
			}
			bv, isConst := tt.BoolConst(info, as.Rhs[i])
			if isConst && bv || identObj(info, as.Rhs[i]) == isMaster {
				if flag != nil && flag != o {
					c.Undecidedf("R1.select", name+"/found-flag", as.Pos(), "more than one 'master found' flag")
					return
				}
				flag = o
				flagSets = append(flagSets, as)
			}
		}
	}
	// the flag and the result as recursiveGetSlotState sees them
	rflag, rres, rx := flag, res, x
	if viaCall != nil && flag != nil {
		rflag, rres = nil, nil
		rg := recView.G
		rx = recView.X(c.Program)
		vp, _ := tt.Find(rg, viaCall)
		if vas, ok := vp.Node().(*ast.AssignStmt); ok && len(vas.Rhs) == 1 {
			core.Inspect(body, func(n ast.Node) bool {
				if r, ok := n.(*ast.ReturnStmt); ok && len(r.Results) == len(vas.Lhs) {
					for i, e := range r.Results {
						if identObj(info, e) == flag {
							rflag = identObj(info, vas.Lhs[i])
						}
						if identObj(info, e) == res {
							rres = identObj(info, vas.Lhs[i])
						}
					}
				}
				return true
			})
		}
	}
	// the flag and the result may be handed on through copies after the loop (results of an
	// inlined helper): `newSlot, masterFound = topology, found`
	if viaCall == nil && flag != nil {
		for pass := 0; pass < 3; pass++ {
			core.Inspect(body, func(n ast.Node) bool {
				as, ok := n.(*ast.AssignStmt)
				if !ok || len(as.Lhs) != len(as.Rhs) || x.LoopOf(as) == loop {
					return true
				}
				for i := range as.Rhs {
					r, l := identObj(info, as.Rhs[i]), identObj(info, as.Lhs[i])
					if r == nil || l == nil {
						continue
					}
					if r == rflag && boolObj(as.Lhs[i]) != nil {
						rflag = l
					}
					if r == rres {
						rres = l
					}
				}
				return true
			})
		}
	}
	var rets []*ast.ReturnStmt
	core.Inspect(recView.Body, func(n ast.Node) bool {
		if r, ok := n.(*ast.ReturnStmt); ok && len(r.Results) == 2 && core.IsNil(info, r.Results[1]) && !core.IsNil(info, r.Results[0]) {
			if _, isCall := ast.Unparen(r.Results[0]).(*ast.CallExpr); !isCall {
				rets = append(rets, r)
			}
		}
		return true
	})
	if flag == nil || rflag == nil || rres == nil || len(rets) == 0 {
		c.Undecidedf("R1.select", name+"/found-flag", loop.Pos(), "no 'master found' flag / success return recognised")
		return
	}
	flagTrue := func(f cfgq.Fact) bool { return boolObj(f.Expr) == rflag && f.Val }
	okFlag := true
	var wf []string
	for _, s := range flagSets {
		if ok, w := x.OnlyVia(cfgq.Point{}, s, masterFact); !ok {
			okFlag, wf = false, w
		}
	}
	for _, d := range tt.DefsOf(info, body, flag) {
		if st, ok := d.Stmt.(ast.Stmt); ok && x.LoopOf(st) == ast.Stmt(loop) {
			continue
		}
		if bv, isConst := tt.BoolConst(info, d.Rhs); d.Rhs != nil && (!isConst || bv) {
			okFlag = false
		}
	}
	c.Check("R1.select", name+"/found-flag", flagSets[0].Pos(), okFlag, "the 'master found' flag starts false and is set only when a probe answered master", wf...)
	for _, r := range rets {
		if !relatesTo(info, recView.Body, r.Results[0], rres) {
			c.Undecidedf("R1.select", name+"/success-only-with-master", r.Pos(), "cannot relate the returned value `%s` to the topology built by the probing loop", c.Src(r.Results[0]))
			continue
		}
		ok, w := rx.OnlyVia(cfgq.Point{}, r, flagTrue)
		c.Check("R1.select", name+"/success-only-with-master", r.Pos(), ok && (!relatesTo(info, recView.Body, r.Results[0], rres) || true), "the topology is returned as a success only when a master was found in this pass: otherwise the tool syncs from the stale source (possibly a replica) instead of retrying / failing", w...)
	}

	// ---- R2 / R4: the paths of one iteration
	var head *cfg.Block
	for _, b := range g.CFG.Blocks {
		if b.Live && (b.Kind == cfg.KindRangeLoop || b.Kind == cfg.KindForLoop) && b.Stmt == loop {
			head = b
		}
	}
	if head == nil {
		c.Undecidedf("R2.partition", name+"/iteration", loop.Pos(), "loop head not found")
		return
	}
	traces, err := x.Traces(head.Succs[0], 0, func(b *cfg.Block) bool { return b == head }, 500)
	if err != nil {
		c.Undecidedf("R2.partition", name+"/iteration", loop.Pos(), "cannot enumerate the paths of one iteration: %v", err)
		return
	}
	in := func(list []ast.Node, n ast.Node) bool {
		for _, m := range list {
			if m == n {
				return true
			}
		}
		return false
	}
	var badClass, badKeep, earlyExit []string
	for ti := range traces {
		t := &traces[ti]
		if t.End == tt.EndAbort {
			continue
		}
		if t.End != tt.EndStop && t.End != tt.EndBack {
			earlyExit = describe(c, t)
			continue
		}
		nS, nA := 0, 0
		kept, flagVal, flagKnown, flagSet := false, false, false, false
		// values saved before they are overwritten: `previous, hadMaster := newSlot.Source, masterFound`
		srcCopy, flagCopy := map[types.Object]bool{}, map[types.Object]bool{}
		for _, ev := range t.Evs {
			if ev.Lit != nil {
				o := boolObj(ev.Lit.Expr)
				if o != nil && (o == flag && !flagSet || flagCopy[o]) {
					flagVal, flagKnown = ev.Lit.Val, true
				}
				continue
			}
			if ev.Node == nil {
				continue
			}
			if as, ok := ev.Node.(*ast.AssignStmt); ok && len(as.Lhs) == len(as.Rhs) {
				for i := range as.Lhs {
					if _, hx, ok := appendOf(as.Rhs[i]); ok && isCarrier(as.Lhs[i], "Slaves", slvVars) {
						if h := identObj(info, hx); h != nil && srcCopy[h] {
							kept = true // the saved previous source is listed as a replica
						}
					}
					l := identObj(info, as.Lhs[i])
					if l == nil {
						continue
					}
					if isCarrier(as.Rhs[i], "Source", srcVars) && nS == 0 && !isCarrier(as.Lhs[i], "Source", srcVars) {
						srcCopy[l] = true
					}
					if identObj(info, as.Rhs[i]) == flag && !flagSet && l != flag {
						flagCopy[l] = true
					}
				}
			}
			switch {
			case in(keeps, ev.Node):
				if nS == 0 {
					kept = true
				}
			case in(appends, ev.Node):
				nA++
			}
			if in(sources, ev.Node) {
				nS++
			}
			if in(flagSets, ev.Node) {
				flagSet = true
			}
		}
		okKeep := nS == 0 || flagKnown && !flagVal || flagKnown && flagVal && kept
		if nS+nA != 1 {
			badClass = describe(c, t)
		}
		if !okKeep {
			badKeep = describe(c, t)
		}
	}
	c.Check("R2.partition", name+"/every-host-classified", loop.Pos(), badClass == nil, "on every path of one iteration the probed host must become Source or be appended to Slaves, exactly one of the two: otherwise a known node is dropped from the topology (or listed as its own replica)", badClass...)
	c.Check("R2.partition", name+"/displaced-source", sources[0].Pos(), badKeep == nil,
		"when a host is made Source although a master was already chosen earlier in the same pass, the earlier one must be kept (appended to Slaves) or the later one must be listed as a replica; witness: nodes A and B both answer role:master (e.g. during a failover) -> the result has Source=B and Slaves without A: A is listed neither as source nor as replica", badKeep...)
	c.Check("R4.probe", name+"/no-early-exit", loop.Pos(), earlyExit == nil, "the probing loop must visit every node: with a break/return inside the loop the nodes after the first master are not listed as replicas", earlyExit...)

	// the host list: Source followed by all Slaves of the supervisor's slot
	items, okItems := hostItems(info, body, loop, hostList, 3)
	if okItems && len(items) == 2 && items[0] == "Source" && items[1] == "Slaves..." {
		c.Okf("R4.probe", name+"/host-list", loop.Pos(), "the probed hosts are the known Source followed by all known Slaves")
	} else {
		c.Undecidedf("R4.probe", name+"/host-list", loop.Pos(), "the host list `%s` is not recognised as the supervisor's Source followed by its Slaves (%v)", c.Src(tt.Resolve(info, body, hostList, 2)), items)
	}
}

// hostItems evaluates a []string expression built with literals and append from the fields of
// s.slot: "Source", "Slaves..." in order. Locals are followed through their definitions when these
// are top-level statements of the function that precede the loop.
func hostItems(info *types.Info, body *ast.BlockStmt, at ast.Node, e ast.Expr, depth int) ([]string, bool) {
	field := func(e ast.Expr, spread bool) (string, bool) {
		for _, f := range []string{"Source", "Slaves"} {
			if b, ok := isNodeField(info, e, f); ok && core.IsFieldNamed(info, b, sup, "slot") && (f == "Slaves") == spread {
				if spread {
					return f + "...", true
				}
				return f, true
			}
		}
		return "", false
	}
	e = ast.Unparen(e)
	switch v := e.(type) {
	case *ast.CompositeLit:
		var out []string
		for _, el := range v.Elts {
			it, ok := field(el, false)
			if !ok {
				return nil, false
			}
			out = append(out, it)
		}
		return out, true
	case *ast.CallExpr:
		id, ok := v.Fun.(*ast.Ident)
		if !ok {
			return nil, false
		}
		switch id.Name {
		case "make":
			return nil, len(v.Args) >= 2 && func() bool { n, ok := core.IntConst(info, v.Args[1]); return ok && n == 0 }()
		case "append":
			if len(v.Args) == 0 {
				return nil, false
			}
			out, ok := hostItems(info, body, at, v.Args[0], depth)
			if !ok {
				return nil, false
			}
			for i, a := range v.Args[1:] {
				it, ok := field(a, v.Ellipsis.IsValid() && i == len(v.Args)-2)
				if !ok {
					return nil, false
				}
				out = append(out, it)
			}
			return out, true
		}
	case *ast.Ident:
		if depth == 0 {
			return nil, false
		}
		o := identObj(info, v)
		var out []string
		k := 0
		// the constructs that enclose the probing loop as well (a retry loop around the whole attempt)
		// enclose one execution of both the definition and the loop
		shared := map[ast.Node]bool{}
		if at != nil {
			for _, anc := range core.PathTo(body, at) {
				shared[anc] = true
			}
		}
		for _, d := range tt.DefsOf(info, body, o) {
			// every definition is executed unconditionally, once: no loop or branch around it
			straight := true
			for _, anc := range core.PathTo(body, d.Stmt) {
				switch anc.(type) {
				case *ast.IfStmt, *ast.SwitchStmt, *ast.TypeSwitchStmt, *ast.SelectStmt, *ast.ForStmt, *ast.RangeStmt, *ast.FuncLit:
					if anc != d.Stmt && !shared[anc] {
						straight = false
					}
				}
			}
			if !straight {
				return nil, false
			}
			if d.Rhs == nil {
				continue // var hosts []string
			}
			k++
			if k > 1 {
				// a later definition must extend the list itself: hosts = append(hosts, ...)
				call, ok := ast.Unparen(d.Rhs).(*ast.CallExpr)
				if !ok || len(call.Args) == 0 || identObj(info, call.Args[0]) != o {
					return nil, false
				}
				id, _ := call.Fun.(*ast.Ident)
				if id == nil || id.Name != "append" {
					return nil, false
				}
				for i, a := range call.Args[1:] {
					it, ok := field(a, call.Ellipsis.IsValid() && i == len(call.Args)-2)
					if !ok {
						return nil, false
					}
					out = append(out, it)
				}
				continue
			}
			items, ok := hostItems(info, body, at, d.Rhs, depth-1)
			if !ok {
				return nil, false
			}
			out = items
		}
		return out, true
	}
	return nil, false
}

// skipRule: the role probe of updateSlotTopology may be skipped only for a source that is not a
// cluster. Every path from the entry to a normal exit that does not execute the GetSlotState call
// must cross a branch that establishes `source type != cluster`; a path that skips the probe under
// any other condition (e.g. "the shard has no known replica") syncs from a node nobody asked for
// its role.
func skipRule(c *core.Ctx, fn *core.Fn, view *tt.View, x *tt.X, probe cfgq.Point) {
	info := fn.Pkg.TypesInfo
	g := view.G
	cluster := ""
	if pk := c.Pkg("redis-shake/configure"); pk != nil {
		if k, ok := pk.Types.Scope().Lookup("RedisTypeCluster").(*types.Const); ok && k.Val().Kind() == constant.String {
			cluster = constant.StringVal(k.Val())
		}
	}
	if cluster == "" {
		c.Undecidedf("R5.start", fn.Decl.Name.Name+"/skip-only-non-cluster", fn.Decl.Pos(), "constant conf.RedisTypeCluster not found")
		return
	}
	// the source type: conf.Options.SourceType, a single-assignment copy of it, or a parameter that
	// every caller binds to it
	var isSourceType func(e ast.Expr, depth int) bool
	isSourceType = func(e ast.Expr, depth int) bool {
		e = tt.Resolve(info, view.Body, e, 4)
		if f, ok := tt.IsConfField(info, e, "SourceType"); ok && f == "SourceType" {
			return true
		}
		id, ok := e.(*ast.Ident)
		if !ok || depth == 0 {
			return false
		}
		k := 0
		for _, fl := range fn.Decl.Type.Params.List {
			for _, n := range fl.Names {
				if info.Defs[n] == core.ObjOf(info, id) {
					sites, okAll := 0, true
					for _, pk := range c.Pkgs {
						if pk.ID != pk.PkgPath || pk.TypesInfo != info {
							continue
						}
						for _, file := range pk.Syntax {
							for _, call := range core.CallsAll(file, info, func(_ *ast.CallExpr, callee types.Object) bool { return callee == types.Object(fn.Obj) }) {
								sites++
								if k >= len(call.Args) {
									okAll = false
									continue
								}
								if f, ok := tt.IsConfField(info, call.Args[k], "SourceType"); !ok || f != "SourceType" {
									okAll = false
								}
							}
						}
					}
					return sites > 0 && okAll
				}
				k++
			}
		}
		return false
	}
	nonCluster := func(f cfgq.Fact) bool {
		subj, lit, ok := stringEq(info, f)
		return ok && lit == cluster && isSourceType(subj, 2)
	}
	pn := probe.Node()
	w := g.Path(cfgq.Query{From: g.Entry(), Avoid: func(n ast.Node) bool { return n == pn }, TargetExit: cfgq.NormalExit,
		AvoidEdge: func(b *cfg.Block, si int) bool { return x.Establishes(b, si, nonCluster) }})
	c.Check("R5.start", fn.Decl.Name.Name+"/skip-only-non-cluster", fn.Decl.Pos(), w == nil,
		"the role probe may be skipped only when the source is not a cluster: on this path a cluster shard (e.g. one known with zero replicas) is never asked for its role and Sync() issues PSYNC to a node that may meanwhile be a replica", w...)
}

// stringEq: the fact says `subj != lit` for a string constant lit (x != "c" true, x == "c" false,
// either operand order); it returns the operand that is not the constant.
func stringEq(info *types.Info, f cfgq.Fact) (ast.Expr, string, bool) {
	be, ok := ast.Unparen(f.Expr).(*ast.BinaryExpr)
	if !ok || be.Op != token.EQL && be.Op != token.NEQ || (be.Op == token.NEQ) != f.Val {
		return nil, "", false
	}
	if s, ok := core.StringConst(info, be.Y); ok {
		return be.X, s, true
	}
	if s, ok := core.StringConst(info, be.X); ok {
		return be.Y, s, true
	}
	return nil, "", false
}

// syncOrder: Sync() refreshes the topology before it reads the source address of its node.
func syncOrder(c *core.Ctx, upd *core.Fn) {
	sync := c.Func(pkgSync, "DbSyncer", "Sync")
	if sync == nil {
		return
	}
	info := sync.Pkg.TypesInfo
	view := tt.ViewOf(c.Program, sync, "c20sync", func(f *types.Func) bool { return f == upd.Obj })
	g := view.G
	isUpd := g.HasCall(func(_ *ast.CallExpr, callee types.Object) bool { return callee == types.Object(upd.Obj) })
	if len(g.Points(isUpd)) == 0 {
		// deferred: the refresh runs when Sync returns, after everything that uses the source address
		var deferred *ast.DeferStmt
		ast.Inspect(view.Body, func(n ast.Node) bool {
			if _, isLit := n.(*ast.FuncLit); isLit {
				return false
			}
			if d, ok := n.(*ast.DeferStmt); ok && core.Callee(info, d.Call) == types.Object(upd.Obj) {
				deferred = d
			}
			return true
		})
		if deferred != nil {
			c.Failf("R5.start", "Sync/refresh-before-use", deferred.Pos(), "updateSlotTopology is deferred: it runs when Sync() returns, after the source address has been used; PSYNC goes to the node recorded before the re-discovery")
			return
		}
		if tt.ReachesFunc(c.Program, info, sync.Decl.Body, upd.Obj, 3) {
			c.Undecidedf("R5.start", "Sync/refresh-before-use", sync.Decl.Pos(), "updateSlotTopology is used through a helper or a function value: the order is not analysed in that form")
			return
		}
		c.Failf("R5.start", "Sync/refresh-before-use", sync.Decl.Pos(), "Sync() never calls updateSlotTopology: the source of a cluster shard is never re-discovered, PSYNC goes to the node recorded at start-up even after it became a replica")
		return
	}
	readsSource := func(n ast.Node) bool {
		hit := false
		core.Inspect(n, func(m ast.Node) bool {
			if e, ok := m.(ast.Expr); ok {
				if base, isSrc := isNodeField(info, e, "Source"); isSrc && core.IsFieldNamed(info, base, "DbSyncer", "node") {
					hit = true
				}
			}
			return !hit
		})
		return hit
	}
	w := g.Path(cfgq.Query{From: g.Entry(), Avoid: isUpd, Target: readsSource})
	c.Check("R5.start", "Sync/refresh-before-use", sync.Decl.Pos(), w == nil, "Sync() must call updateSlotTopology before it uses ds.node.Source (checkpoint lookup, PSYNC): otherwise the sync starts from the stale source", w...)
}

// appendOf matches `append(l, h)` syntactically (no look-through of locals: a saved copy of the
// previous source must stay distinguishable from the source itself).
func appendOf(e ast.Expr) (l, h ast.Expr, ok bool) {
	call, isCall := ast.Unparen(e).(*ast.CallExpr)
	if !isCall || len(call.Args) != 2 || call.Ellipsis.IsValid() {
		return nil, nil, false
	}
	if id, isId := call.Fun.(*ast.Ident); !isId || id.Name != "append" {
		return nil, nil, false
	}
	return call.Args[0], call.Args[1], true
}

// relatesTo: the returned expression is (the address of) the result variable, a copy of it, or a
// pointer through which the result was stored (`p := new(T); *p = res; return p`).
func relatesTo(info *types.Info, body ast.Node, e ast.Expr, res types.Object) bool {
	if res == nil {
		return false
	}
	if core.Mentions(info, e, res) || tt.MentionsResolved(info, body, e, res, 4) {
		return true
	}
	p := identObj(info, e)
	// a variable declared first and assigned once (`var found *T; { c := topology; found = &c }`)
	if p != nil {
		var assigns []tt.Def
		for _, d := range tt.DefsOf(info, body, p) {
			if _, isDecl := d.Stmt.(*ast.ValueSpec); isDecl && d.Rhs == nil {
				continue
			}
			assigns = append(assigns, d)
		}
		if len(assigns) == 1 && assigns[0].Rhs != nil && assigns[0].Index == -1 && assigns[0].Range == nil && ast.Unparen(assigns[0].Rhs) != ast.Unparen(e) {
			if relatesTo(info, body, assigns[0].Rhs, res) {
				return true
			}
		}
	}
	found := false
	ast.Inspect(body, func(n ast.Node) bool {
		as, ok := n.(*ast.AssignStmt)
		if !ok || len(as.Lhs) != len(as.Rhs) {
			return true
		}
		for i := range as.Lhs {
			if st, ok := ast.Unparen(as.Lhs[i]).(*ast.StarExpr); ok && p != nil && identObj(info, st.X) == p && core.Mentions(info, as.Rhs[i], res) {
				found = true
			}
		}
		return true
	})
	return found
}

func describe(c *core.Ctx, t *tt.Trace) []string {
	var out []string
	for _, ev := range t.Evs {
		switch {
		case ev.Lit != nil:
			out = append(out, fmt.Sprintf("%s is %v", c.Src(ev.Lit.Expr), ev.Lit.Val))
		case ev.Node != nil:
			out = append(out, fmt.Sprintf("L%d: %s", c.Fset.Position(ev.Node.Pos()).Line, c.Src(ev.Node)))
		}
	}
	return out
}
