// Package c20 decides the structural clauses of property C20 (source
// re-discovery selects a node that really is the master).
package c20

import (
	"fmt"
	"go/ast"
	"go/token"
	"go/types"
	"regexp"
	"strings"

	"rscheck/cfgq"
	"rscheck/core"
	"rscheck/driver"
	"rscheck/rules/c06/tt"
)

const (
	pkgSup  = "redis-shake/dbSync/slotsupervisor"
	pkgSync = "redis-shake/dbSync"
	sup     = "slotSupervisor"
)

var pseudoLabel = regexp.MustCompile(`^L_x\d+$`)

var Def = driver.PropDef{
	ID: "C20",
	Explanation: "Structural necessary conditions of master re-discovery: " +
		"R1 decision table of getRedisNodeState over all its paths (true only for a node whose INFO reports role:master, with a nil error; false on connect error, command error, role:slave, no role) and selection guard of recursiveGetSlotState (Source is assigned only the probed host, only when it answered master without error; success is returned only when a master was found); " +
		"R2 partition (on every path of one probing iteration the host becomes Source or is appended to Slaves, never neither/both; a Source chosen earlier in the pass is kept as a replica when another host is chosen); " +
		"R3 bounded retry (recursive call with depth-1, only when depth != 0, depth 0 ends in an error; maxRetries a non-negative constant; no other loop); " +
		"R4 every node is probed (Source followed by all Slaves, no early exit from the loop); " +
		"R5 updateSlotTopology turns an error into a no-return log and otherwise replaces ds.node; " +
		"R6 on the call tree of the role probe (connection factory, OpenNetConn, AuthPassword, ...) no branch taken on a non-nil error leads to a no-return call, except the sites frozen from the pinned tree; " +
		"R7 the known nodes of a shard are its own: the replica list stored in a SlotOwner by GetSlotDistribution is a slice allocated anew between two stores (no backing array shared between shards).",
	NotDecided: "'currently reports' (freshness of the answer), fault sequences across retries, the back-off duration, the INFO text format beyond the role:master / role:slave constants.",
	Trusted:    []string{"go/parser, go/types, go/cfg (x/tools v0.29.0)", "regexp.MatchString / strings semantics", "redigo Conn.Do semantics"},
	Run:        Run,
}

func Run(c *core.Ctx) {
	node := c.Func(pkgSup, sup, "getRedisNodeState")
	rec := c.Func(pkgSup, sup, "recursiveGetSlotState")
	get := c.Func(pkgSup, sup, "GetSlotState")
	upd := c.Func(pkgSync, "DbSyncer", "updateSlotTopology")
	trueNil := false
	retryLoop := token.NoPos
	if node != nil {
		trueNil = nodeState(c, node)
	}
	if node != nil {
		tolerate(c, node)
	}
	if rec != nil && node != nil {
		selection(c, rec, node, trueNil)
		retryLoop = retry(c, rec, get)
	}
	for _, fn := range []*core.Fn{node, rec, get} {
		if fn == nil {
			continue
		}
		pseudo := map[*ast.ForStmt]bool{} // `L_xN: for { ...; break L_xN }`: the one-trip loop the helper expansion writes for early exits
		core.Inspect(fn.Decl.Body, func(n ast.Node) bool {
			if ls, ok := n.(*ast.LabeledStmt); ok {
				if fs, isFor := ls.Stmt.(*ast.ForStmt); isFor && fs.Init == nil && fs.Cond == nil && fs.Post == nil && pseudoLabel.MatchString(ls.Label.Name) && len(fs.Body.List) > 0 {
					if br, isBr := fs.Body.List[len(fs.Body.List)-1].(*ast.BranchStmt); isBr && br.Tok == token.BREAK && br.Label != nil && br.Label.Name == ls.Label.Name {
						// no `continue` of this loop: it runs once
						cont := false
						ast.Inspect(fs.Body, func(m ast.Node) bool {
							if b, isB := m.(*ast.BranchStmt); isB && b.Tok == token.CONTINUE && b.Label != nil && b.Label.Name == ls.Label.Name {
								cont = true
							}
							return true
						})
						// an unlabelled continue directly in the body (not inside an inner loop) would repeat it too
						var walk func(m ast.Node)
						walk = func(m ast.Node) {
							ast.Inspect(m, func(k ast.Node) bool {
								switch v := k.(type) {
								case *ast.ForStmt, *ast.RangeStmt, *ast.FuncLit:
									return k == m
								case *ast.BranchStmt:
									if v.Tok == token.CONTINUE && v.Label == nil {
										cont = true
									}
								}
								return true
							})
						}
						walk(fs.Body)
						if !cont {
							pseudo[fs] = true
						}
					}
				}
			}
			return true
		})
		core.Inspect(fn.Decl.Body, func(n ast.Node) bool {
			if fs, ok := n.(*ast.ForStmt); ok {
				if pseudo[fs] {
					return true
				}
				if fn == rec && retryLoop.IsValid() && fs.Pos() == retryLoop {
					return true // the retry itself, written as a counting loop (R3.retry decides it)
				}
				if list, _ := tt.LoopElem(fn.Pkg.TypesInfo, fs); list != nil && fs.Post != nil {
					if inc, ok := fs.Post.(*ast.IncDecStmt); ok && inc.Tok == token.INC {
						return true // `for i := ..; i < len(l); i++`: bounded by the list
					}
				}
				c.Undecidedf("R3.retry", fn.Decl.Name.Name+"/extra-loop", fs.Pos(), "a `for` loop besides the probing loops: its termination is not analysed")
			}
			return true
		})
	}
	if upd != nil {
		useAtStart(c, upd)
	}
	knownNodes(c)
	c.Expect(ruleNodes, 1)
	c.Expect("R1.node", 6)
	c.Expect("R1.select", 5)
	c.Expect("R2.partition", 2)
	c.Expect("R3.retry", 4)
	c.Expect("R4.probe", 2)
	c.Expect("R5.start", 4)
}

// cmdErrWhen: when one error variable carries both failure kinds, the command-error row is the
// connect-error row.
func cmdErrWhen(combined bool) map[string]bool {
	if combined {
		return map[string]bool{"connect-error": true}
	}
	return map[string]bool{"connect-error": false, "command-error": true}
}

func errFact(info *types.Info, f cfgq.Fact, obj types.Object) (isErr bool, nonNil bool) {
	be, ok := ast.Unparen(f.Expr).(*ast.BinaryExpr)
	if !ok || be.Op != token.NEQ && be.Op != token.EQL {
		return false, false
	}
	var o types.Object
	switch {
	case core.IsNil(info, be.Y):
		o = core.ObjOf(info, be.X)
	case core.IsNil(info, be.X):
		o = core.ObjOf(info, be.Y)
	}
	if o == nil || obj != nil && o != obj {
		return false, false
	}
	if v, ok := o.(*types.Var); !ok || !cfgq.IsErrorType(v.Type()) {
		return false, false
	}
	return true, (be.Op == token.NEQ) == f.Val
}

// ---------------------------------------------------------------------------
// R1: getRedisNodeState

func nodeState(c *core.Ctx, fn *core.Fn) (trueImpliesNil bool) {
	info := fn.Pkg.TypesInfo
	body := fn.Decl.Body
	view := tt.ViewOf(c.Program, fn, "c20node", nil)
	x := view.X(c.Program)
	if x.ZeroInit == nil {
		x.ZeroInit = map[types.Object]bool{}
	}
	if fn.Decl.Type.Results != nil {
		for _, fl := range fn.Decl.Type.Results.List {
			for _, nm := range fl.Names {
				x.Named = append(x.Named, nm)
				x.ZeroInit[info.Defs[nm]] = true
			}
		}
	}
	body = view.Body
	x.Rewrite = tt.PrefixBySlicing(info) // hand-written prefix tests, strings.Index(..) == 0
	name := fn.Decl.Name.Name
	pkgInit := func(id *ast.Ident) ast.Expr { // initialiser of a package-level variable
		v, ok := core.ObjOf(info, id).(*types.Var)
		if !ok || v.Pkg() == nil || v.Parent() != v.Pkg().Scope() {
			return nil
		}
		for _, f := range fn.Pkg.Syntax {
			for _, d := range f.Decls {
				gd, ok := d.(*ast.GenDecl)
				if !ok {
					continue
				}
				for _, sp := range gd.Specs {
					if vs, ok := sp.(*ast.ValueSpec); ok && len(vs.Values) == len(vs.Names) {
						for i, n := range vs.Names {
							if info.Defs[n] == types.Object(v) {
								return vs.Values[i]
							}
						}
					}
				}
			}
		}
		return nil
	}
	roleConst := func(e ast.Expr, root ast.Node) string {
		// a string constant reachable from e (regexp.MustCompile("^role:master"), HasPrefix(line, "role:master"))
		found := ""
		var visit func(n ast.Node, depth int)
		visit = func(n ast.Node, depth int) {
			ast.Inspect(n, func(m ast.Node) bool {
				ex, ok := m.(ast.Expr)
				if !ok {
					return true
				}
				if s, ok := core.StringConst(info, ex); ok && (strings.Contains(s, "role:") || strings.Contains(s, "master") || strings.Contains(s, "slave")) {
					found += "\x00" + s
				}
				if id, ok := ex.(*ast.Ident); ok && depth > 0 {
					if d, ok := tt.SingleDef(info, root, id); ok && d.Rhs != nil && d.Range == nil {
						visit(d.Rhs, depth-1)
					} else if init := pkgInit(id); init != nil {
						visit(init, depth-1)
					}
				}
				return true
			})
		}
		visit(e, 2)
		return found
	}
	nErr := 0
	combined := false // one error variable stands for both the connect and the command error
	errNames := map[types.Object]string{}
	classify := func(l tt.Lit) (string, bool, bool) {
		if is, _ := errFact(info, cfgq.Fact{Expr: l.Expr, Val: true}, nil); is {
			be := ast.Unparen(l.Expr).(*ast.BinaryExpr)
			id := be.X
			if core.IsNil(info, be.X) {
				id = be.Y
			}
			o := core.ObjOf(info, id)
			if errNames[o] == "" {
				nm := ""
				root := l.Root
				if root == nil {
					root = body
				}
				for _, d := range tt.DefsOf(info, root, o) {
					if d.Rhs == nil {
						continue
					}
					var origin func(n ast.Node, depth int)
					origin = func(n ast.Node, depth int) {
						ast.Inspect(n, func(m ast.Node) bool {
							call, ok := m.(*ast.CallExpr)
							if !ok {
								return true
							}
							if sel, ok := ast.Unparen(call.Fun).(*ast.SelectorExpr); ok {
								if sel.Sel.Name == "Do" {
									if nm == "" {
										nm = "command-error"
									} else if nm == "connect-error" {
										combined = true
									}
								}
								if core.IsFieldNamed(info, sel, sup, "redisConnFactory") {
									if nm == "command-error" {
										combined = true
									}
									nm = "connect-error"
								}
							}
							// a same-package helper that could not be inlined (it defers): the error may
							// come from the connection or from the command inside it
							if h := c.FnOf(core.CalleeFunc(info, call)); h != nil && h.Decl.Body != nil && h.Pkg.TypesInfo == info && depth > 0 && h.Obj != fn.Obj {
								origin(h.Decl.Body, depth-1)
							}
							return true
						})
						// the error may be carried in locals: `reply, err := conn.Do(..); return redigo.String(reply, err)`
						// (error-typed locals only: the connection `conn` a command is sent on is not where its error comes from)
						if depth > 0 {
							ast.Inspect(n, func(m ast.Node) bool {
								if id, ok := m.(*ast.Ident); ok {
									if v, isVar := core.ObjOf(info, id).(*types.Var); isVar && !v.IsField() && v != o && v.Pkg() != nil && v.Parent() != v.Pkg().Scope() && cfgq.IsErrorType(v.Type()) {
										for _, dd := range tt.DefsOf(info, root, v) {
											if dd.Rhs != nil {
												origin(dd.Rhs, depth-1)
											}
										}
									}
								}
								return true
							})
						}
					}
					origin(d.Rhs, 2)
				}
				if nm == "" {
					nErr++
					nm = fmt.Sprintf("error#%d", nErr)
				}
				errNames[o] = nm
			}
			return errNames[o], be.Op == token.NEQ, true
		}
		if _, ok := ast.Unparen(l.Expr).(*ast.CallExpr); ok && l.Loop != nil {
			root := l.Root
			if root == nil {
				root = body
			}
			switch s := roleConst(l.Expr, root); {
			case strings.Contains(s, "master") && !strings.Contains(s, "slave"):
				return "reports-master", true, true
			case strings.Contains(s, "slave") && !strings.Contains(s, "master"):
				return "reports-slave", true, true
			case strings.Contains(s, "role:") && !strings.Contains(s, "master") && !strings.Contains(s, "slave"):
				return "role-line", true, true // an outer test for "this is the role line"
			}
		}
		return "", false, false
	}
	traces, err := x.Traces(x.G.CFG.Blocks[0], 0, nil, 200)
	var rows []tt.Row
	if err == nil {
		rows, err = x.Table(traces, 0, classify)
	}
	if err != nil {
		c.Undecidedf("R1.node", name+"/table", fn.Decl.Pos(), "cannot extract the decision table: %v", err)
		return false
	}
	// an error whose origin is unknown could be either of the two: nothing can be concluded then
	for _, a := range tt.Atoms(rows) {
		if strings.HasPrefix(a, "error#") {
			c.Undecidedf("R1.node", name+"/table", fn.Decl.Pos(), "the origin of an error that is tested is not recognised as the connection or the INFO command")
			return false
		}
	}
	universe := []string{"connect-error", "command-error", "reports-master", "reports-slave"}
	seen := map[string]bool{}
	for _, a := range universe {
		seen[a] = true
	}
	for _, a := range tt.Atoms(rows) {
		if !seen[a] {
			universe = append(universe, a)
		}
	}
	noErr := map[string]bool{"connect-error": false, "command-error": false}
	w := func(kv ...interface{}) map[string]bool {
		m := map[string]bool{}
		for k, v := range noErr {
			m[k] = v
		}
		for i := 0; i+1 < len(kv); i += 2 {
			m[kv[i].(string)] = kv[i+1].(bool)
		}
		return m
	}
	feasible := func(as map[string]bool) bool { // an atom tested only under a guard implies the guard
		for a, v := range as {
			if v {
				for g := range x.Deps[a] {
					if !as[g] {
						return false
					}
				}
			}
		}
		return true
	}
	for _, v := range tt.Compare(rows, universe, feasible, []tt.Want{
		{Name: "connect-error", When: map[string]bool{"connect-error": true}, Out: "false", Input: "an unreachable node is never reported as master"},
		{Name: "command-error", When: cmdErrWhen(combined), Out: "false", Input: "a node answering INFO with an error is never reported as master"},
		{Name: "role-master", When: w("reports-master", true, "reports-slave", false), Out: "true", Input: "a reachable node whose INFO replication reports role:master is reported as master"},
		{Name: "role-slave", When: w("reports-master", false, "reports-slave", true), Out: "false", Input: "a node reporting role:slave is never reported as master"},
		{Name: "no-role", When: w("reports-master", false, "reports-slave", false), Out: "false", Input: "a node whose INFO output has no role line is never reported as master"},
	}) {
		if v.Undecided {
			c.Undecidedf("R1.node", name+"/"+v.Want.Name, fn.Decl.Pos(), "%s", v.Witness)
			continue
		}
		c.Check("R1.node", name+"/"+v.Want.Name, fn.Decl.Pos(), v.OK, v.Want.Input+" (expected first result "+v.Want.Out+"); otherwise the tool syncs from a node that is not the master, or never finds the master", v.Witness)
	}
	// a `true` answer carries a nil error: on every returning path on which the first result can be
	// true, the second is nil (explicit results, named results with bare returns, values in locals)
	trueImpliesNil = true
	n := 0
	lastAssign := func(t *tt.Trace, o types.Object, upto int) (ast.Expr, int) {
		for k := upto - 1; k >= 0; k-- {
			nd := t.Evs[k].Node
			if nd == nil {
				continue
			}
			for _, d := range tt.DefsOf(info, nd, o) {
				return d.Rhs, k
			}
		}
		return nil, -1
	}
	for ti := range traces {
		t := &traces[ti]
		if t.End != tt.EndReturn {
			continue
		}
		res := t.Ret.Results
		if len(res) == 0 {
			for _, nm := range x.Named {
				res = append(res, nm)
			}
		}
		if len(res) != 2 {
			n++ // an answer that cannot be followed (multi-value call)
			trueImpliesNil = false
			continue
		}
		r0, r1 := ast.Unparen(res[0]), ast.Unparen(res[1])
		if bv, isConst := tt.BoolConst(info, r0); isConst && !bv {
			continue
		}
		if o := tt.BoolLocal(info, r0); o != nil {
			rhs, at := lastAssign(t, o, len(t.Evs))
			if at < 0 && x.ZeroInit[o] {
				continue // never assigned on this path: false
			}
			if bv, isConst := tt.BoolConst(info, rhs); rhs != nil && isConst && !bv {
				continue
			}
		}
		n++
		if core.IsNil(info, r1) {
			continue
		}
		okNil := false
		if o := tt.ErrLocal(info, r1); o != nil {
			rhs, at := lastAssign(t, o, len(t.Evs))
			switch {
			case at < 0 && x.ZeroInit[o]:
				okNil = true
			case rhs != nil && core.IsNil(info, rhs):
				okNil = true
			}
			for k := at + 1; k < len(t.Evs) && !okNil; k++ {
				if l := t.Evs[k].Lit; l != nil {
					if is, nonNil := errFact(info, cfgq.Fact{Expr: l.Expr, Val: l.Val}, o); is && !nonNil {
						okNil = true
					}
				}
			}
		}
		if !okNil {
			trueImpliesNil = false
		}
	}
	if n == 0 {
		c.Undecidedf("R1.node", name+"/master-without-error", fn.Decl.Pos(), "no return that can answer true")
		return false
	}
	c.Check("R1.node", name+"/master-without-error", fn.Decl.Pos(), trueImpliesNil, "an answer that can be `true` must carry a nil error: the caller discards nodes that answered with an error, so a real master would never be selected")
	return trueImpliesNil
}
