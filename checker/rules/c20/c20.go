// Package c20 decides the structural clauses of property C20 (source
// re-discovery selects a node that really is the master).
package c20

import (
	"fmt"
	"go/ast"
	"go/token"
	"go/types"
	"strings"

	"golang.org/x/tools/go/cfg"

	"rscheck/cfgq"
	"rscheck/core"
	"rscheck/driver"
	"rscheck/pat"
	"rscheck/rules/c06/tt"
)

const (
	pkgSup  = "redis-shake/dbSync/slotsupervisor"
	pkgSync = "redis-shake/dbSync"
	sup     = "slotSupervisor"
)

var Def = driver.PropDef{
	ID: "C20",
	Explanation: "Structural necessary conditions of master re-discovery: " +
		"R1 decision table of getRedisNodeState over all its paths (true only for a node whose INFO reports role:master, with a nil error; false on connect error, command error, role:slave, no role) and selection guard of recursiveGetSlotState (Source is assigned only the probed host, only when it answered master without error; success is returned only when a master was found); " +
		"R2 partition (on every path of one probing iteration the host becomes Source or is appended to Slaves, never neither/both; a Source chosen earlier in the pass is kept as a replica when another host is chosen); " +
		"R3 bounded retry (recursive call with depth-1, only when depth != 0, depth 0 ends in an error; maxRetries a non-negative constant; no other loop); " +
		"R4 every node is probed (Source followed by all Slaves, no early exit from the loop); " +
		"R5 updateSlotTopology turns an error into a no-return log and otherwise replaces ds.node.",
	NotDecided: "'currently reports' (freshness of the answer), fault sequences across retries, the back-off duration, the INFO text format beyond the role:master / role:slave constants.",
	Trusted:    []string{"go/parser, go/types, go/cfg (x/tools v0.29.0)", "regexp.MatchString / strings semantics", "redigo Conn.Do semantics"},
	Run:        Run,
}

func Run(c *core.Ctx) {
	node := c.Func(pkgSup, sup, "getRedisNodeState")
	rec := c.Func(pkgSup, sup, "recursiveGetSlotState")
	get := c.Func(pkgSup, sup, "GetSlotState")
	upd := c.Func(pkgSync, "DbSyncer", "updateSlotTopology")
	trueNil := false
	if node != nil {
		trueNil = nodeState(c, node)
	}
	if rec != nil && node != nil {
		selection(c, rec, node, trueNil)
		retry(c, rec, get)
	}
	for _, fn := range []*core.Fn{node, rec, get} {
		if fn == nil {
			continue
		}
		core.Inspect(fn.Decl.Body, func(n ast.Node) bool {
			if fs, ok := n.(*ast.ForStmt); ok {
				if list, _ := tt.LoopElem(fn.Pkg.TypesInfo, fs); list != nil && fs.Post != nil {
					if inc, ok := fs.Post.(*ast.IncDecStmt); ok && inc.Tok == token.INC {
						return true // `for i := ..; i < len(l); i++`: bounded by the list
					}
				}
				c.Undecidedf("R3.retry", fn.Decl.Name.Name+"/extra-loop", fs.Pos(), "a `for` loop besides the probing loops: its termination is not analysed")
			}
			return true
		})
	}
	if upd != nil {
		useAtStart(c, upd)
	}
	c.Expect("R1.node", 6)
	c.Expect("R1.select", 5)
	c.Expect("R2.partition", 2)
	c.Expect("R3.retry", 4)
	c.Expect("R4.probe", 2)
	c.Expect("R5.start", 2)
}

// cmdErrWhen: when one error variable carries both failure kinds, the command-error row is the
// connect-error row.
func cmdErrWhen(combined bool) map[string]bool {
	if combined {
		return map[string]bool{"connect-error": true}
	}
	return map[string]bool{"connect-error": false, "command-error": true}
}

func errFact(info *types.Info, f cfgq.Fact, obj types.Object) (isErr bool, nonNil bool) {
	be, ok := ast.Unparen(f.Expr).(*ast.BinaryExpr)
	if !ok || be.Op != token.NEQ && be.Op != token.EQL {
		return false, false
	}
	var o types.Object
	switch {
	case core.IsNil(info, be.Y):
		o = core.ObjOf(info, be.X)
	case core.IsNil(info, be.X):
		o = core.ObjOf(info, be.Y)
	}
	if o == nil || obj != nil && o != obj {
		return false, false
	}
	if v, ok := o.(*types.Var); !ok || !cfgq.IsErrorType(v.Type()) {
		return false, false
	}
	return true, (be.Op == token.NEQ) == f.Val
}

// ---------------------------------------------------------------------------
// R1: getRedisNodeState

func nodeState(c *core.Ctx, fn *core.Fn) (trueImpliesNil bool) {
	info := fn.Pkg.TypesInfo
	body := fn.Decl.Body
	view := tt.ViewOf(c.Program, fn, "c20node", nil)
	x := view.X(c.Program)
	if x.ZeroInit == nil {
		x.ZeroInit = map[types.Object]bool{}
	}
	if fn.Decl.Type.Results != nil {
		for _, fl := range fn.Decl.Type.Results.List {
			for _, nm := range fl.Names {
				x.Named = append(x.Named, nm)
				x.ZeroInit[info.Defs[nm]] = true
			}
		}
	}
	body = view.Body
	name := fn.Decl.Name.Name
	pkgInit := func(id *ast.Ident) ast.Expr { // initialiser of a package-level variable
		v, ok := core.ObjOf(info, id).(*types.Var)
		if !ok || v.Pkg() == nil || v.Parent() != v.Pkg().Scope() {
			return nil
		}
		for _, f := range fn.Pkg.Syntax {
			for _, d := range f.Decls {
				gd, ok := d.(*ast.GenDecl)
				if !ok {
					continue
				}
				for _, sp := range gd.Specs {
					if vs, ok := sp.(*ast.ValueSpec); ok && len(vs.Values) == len(vs.Names) {
						for i, n := range vs.Names {
							if info.Defs[n] == types.Object(v) {
								return vs.Values[i]
							}
						}
					}
				}
			}
		}
		return nil
	}
	roleConst := func(e ast.Expr, root ast.Node) string {
		// a string constant reachable from e (regexp.MustCompile("^role:master"), HasPrefix(line, "role:master"))
		found := ""
		var visit func(n ast.Node, depth int)
		visit = func(n ast.Node, depth int) {
			ast.Inspect(n, func(m ast.Node) bool {
				ex, ok := m.(ast.Expr)
				if !ok {
					return true
				}
				if s, ok := core.StringConst(info, ex); ok && (strings.Contains(s, "role:") || strings.Contains(s, "master") || strings.Contains(s, "slave")) {
					found += "\x00" + s
				}
				if id, ok := ex.(*ast.Ident); ok && depth > 0 {
					if d, ok := tt.SingleDef(info, root, id); ok && d.Rhs != nil && d.Range == nil {
						visit(d.Rhs, depth-1)
					} else if init := pkgInit(id); init != nil {
						visit(init, depth-1)
					}
				}
				return true
			})
		}
		visit(e, 2)
		return found
	}
	nErr := 0
	combined := false // one error variable stands for both the connect and the command error
	errNames := map[types.Object]string{}
	classify := func(l tt.Lit) (string, bool, bool) {
		if is, _ := errFact(info, cfgq.Fact{Expr: l.Expr, Val: true}, nil); is {
			be := ast.Unparen(l.Expr).(*ast.BinaryExpr)
			id := be.X
			if core.IsNil(info, be.X) {
				id = be.Y
			}
			o := core.ObjOf(info, id)
			if errNames[o] == "" {
				nm := ""
				root := l.Root
				if root == nil {
					root = body
				}
				for _, d := range tt.DefsOf(info, root, o) {
					if d.Rhs == nil {
						continue
					}
					var origin func(n ast.Node, depth int)
					origin = func(n ast.Node, depth int) {
						ast.Inspect(n, func(m ast.Node) bool {
							call, ok := m.(*ast.CallExpr)
							if !ok {
								return true
							}
							if sel, ok := ast.Unparen(call.Fun).(*ast.SelectorExpr); ok {
								if sel.Sel.Name == "Do" {
									if nm == "" {
										nm = "command-error"
									} else if nm == "connect-error" {
										combined = true
									}
								}
								if core.IsFieldNamed(info, sel, sup, "redisConnFactory") {
									if nm == "command-error" {
										combined = true
									}
									nm = "connect-error"
								}
							}
							// a same-package helper that could not be inlined (it defers): the error may
							// come from the connection or from the command inside it
							if h := c.FnOf(core.CalleeFunc(info, call)); h != nil && h.Decl.Body != nil && h.Pkg.TypesInfo == info && depth > 0 && h.Obj != fn.Obj {
								origin(h.Decl.Body, depth-1)
							}
							return true
						})
					}
					origin(d.Rhs, 2)
				}
				if nm == "" {
					nErr++
					nm = fmt.Sprintf("error#%d", nErr)
				}
				errNames[o] = nm
			}
			return errNames[o], be.Op == token.NEQ, true
		}
		if _, ok := ast.Unparen(l.Expr).(*ast.CallExpr); ok && l.Loop != nil {
			root := l.Root
			if root == nil {
				root = body
			}
			switch s := roleConst(l.Expr, root); {
			case strings.Contains(s, "master") && !strings.Contains(s, "slave"):
				return "reports-master", true, true
			case strings.Contains(s, "slave") && !strings.Contains(s, "master"):
				return "reports-slave", true, true
			case strings.Contains(s, "role:") && !strings.Contains(s, "master") && !strings.Contains(s, "slave"):
				return "role-line", true, true // an outer test for "this is the role line"
			}
		}
		return "", false, false
	}
	traces, err := x.Traces(x.G.CFG.Blocks[0], 0, nil, 200)
	var rows []tt.Row
	if err == nil {
		rows, err = x.Table(traces, 0, classify)
	}
	if err != nil {
		c.Undecidedf("R1.node", name+"/table", fn.Decl.Pos(), "cannot extract the decision table: %v", err)
		return false
	}
	universe := []string{"connect-error", "command-error", "reports-master", "reports-slave"}
	seen := map[string]bool{}
	for _, a := range universe {
		seen[a] = true
	}
	for _, a := range tt.Atoms(rows) {
		if !seen[a] {
			universe = append(universe, a)
		}
	}
	noErr := map[string]bool{"connect-error": false, "command-error": false}
	w := func(kv ...interface{}) map[string]bool {
		m := map[string]bool{}
		for k, v := range noErr {
			m[k] = v
		}
		for i := 0; i+1 < len(kv); i += 2 {
			m[kv[i].(string)] = kv[i+1].(bool)
		}
		return m
	}
	feasible := func(as map[string]bool) bool { // an atom tested only under a guard implies the guard
		for a, v := range as {
			if v {
				for g := range x.Deps[a] {
					if !as[g] {
						return false
					}
				}
			}
		}
		return true
	}
	for _, v := range tt.Compare(rows, universe, feasible, []tt.Want{
		{Name: "connect-error", When: map[string]bool{"connect-error": true}, Out: "false", Input: "an unreachable node is never reported as master"},
		{Name: "command-error", When: cmdErrWhen(combined), Out: "false", Input: "a node answering INFO with an error is never reported as master"},
		{Name: "role-master", When: w("reports-master", true, "reports-slave", false), Out: "true", Input: "a reachable node whose INFO replication reports role:master is reported as master"},
		{Name: "role-slave", When: w("reports-master", false, "reports-slave", true), Out: "false", Input: "a node reporting role:slave is never reported as master"},
		{Name: "no-role", When: w("reports-master", false, "reports-slave", false), Out: "false", Input: "a node whose INFO output has no role line is never reported as master"},
	}) {
		if v.Undecided {
			c.Undecidedf("R1.node", name+"/"+v.Want.Name, fn.Decl.Pos(), "%s", v.Witness)
			continue
		}
		c.Check("R1.node", name+"/"+v.Want.Name, fn.Decl.Pos(), v.OK, v.Want.Input+" (expected first result "+v.Want.Out+"); otherwise the tool syncs from a node that is not the master, or never finds the master", v.Witness)
	}
	// a `true` answer carries a nil error: on every returning path on which the first result can be
	// true, the second is nil (explicit results, named results with bare returns, values in locals)
	trueImpliesNil = true
	n := 0
	lastAssign := func(t *tt.Trace, o types.Object, upto int) (ast.Expr, int) {
		for k := upto - 1; k >= 0; k-- {
			nd := t.Evs[k].Node
			if nd == nil {
				continue
			}
			for _, d := range tt.DefsOf(info, nd, o) {
				return d.Rhs, k
			}
		}
		return nil, -1
	}
	for ti := range traces {
		t := &traces[ti]
		if t.End != tt.EndReturn {
			continue
		}
		res := t.Ret.Results
		if len(res) == 0 {
			for _, nm := range x.Named {
				res = append(res, nm)
			}
		}
		if len(res) != 2 {
			n++ // an answer that cannot be followed (multi-value call)
			trueImpliesNil = false
			continue
		}
		r0, r1 := ast.Unparen(res[0]), ast.Unparen(res[1])
		if bv, isConst := tt.BoolConst(info, r0); isConst && !bv {
			continue
		}
		if o := tt.BoolLocal(info, r0); o != nil {
			rhs, at := lastAssign(t, o, len(t.Evs))
			if at < 0 && x.ZeroInit[o] {
				continue // never assigned on this path: false
			}
			if bv, isConst := tt.BoolConst(info, rhs); rhs != nil && isConst && !bv {
				continue
			}
		}
		n++
		if core.IsNil(info, r1) {
			continue
		}
		okNil := false
		if o := tt.ErrLocal(info, r1); o != nil {
			rhs, at := lastAssign(t, o, len(t.Evs))
			switch {
			case at < 0 && x.ZeroInit[o]:
				okNil = true
			case rhs != nil && core.IsNil(info, rhs):
				okNil = true
			}
			for k := at + 1; k < len(t.Evs) && !okNil; k++ {
				if l := t.Evs[k].Lit; l != nil {
					if is, nonNil := errFact(info, cfgq.Fact{Expr: l.Expr, Val: l.Val}, o); is && !nonNil {
						okNil = true
					}
				}
			}
		}
		if !okNil {
			trueImpliesNil = false
		}
	}
	if n == 0 {
		c.Undecidedf("R1.node", name+"/master-without-error", fn.Decl.Pos(), "no return that can answer true")
		return false
	}
	c.Check("R1.node", name+"/master-without-error", fn.Decl.Pos(), trueImpliesNil, "an answer that can be `true` must carry a nil error: the caller discards nodes that answered with an error, so a real master would never be selected")
	return trueImpliesNil
}

// ---------------------------------------------------------------------------
// R1 selection / R2 partition / R4 probing: recursiveGetSlotState

func isNodeField(info *types.Info, e ast.Expr, field string) (base ast.Expr, ok bool) {
	s, isSel := ast.Unparen(e).(*ast.SelectorExpr)
	if !isSel {
		return nil, false
	}
	f := core.FieldOf(info, s)
	if f == nil || f.Name() != field || f.Pkg() == nil || !strings.HasSuffix(f.Pkg().Path(), "/dbSync/slot") {
		return nil, false
	}
	return s.X, true
}

func identObj(info *types.Info, e ast.Expr) types.Object {
	if e == nil {
		return nil
	}
	id, ok := ast.Unparen(e).(*ast.Ident)
	if !ok {
		return nil
	}
	return core.ObjOf(info, id)
}

// probeHost: callee probes one node (getRedisNodeState itself, or a same-package helper that only
// forwards one of its parameters to it); returns the index of the host argument.
func probeHost(c *core.Ctx, info *types.Info, node *core.Fn, callee types.Object) (int, bool) {
	if callee == types.Object(node.Obj) {
		return 0, true
	}
	f, _ := callee.(*types.Func)
	h := c.FnOf(f)
	if h == nil || h.Decl.Body == nil || h.Pkg.TypesInfo != info || len(h.Decl.Body.List) != 1 {
		return 0, false
	}
	r, ok := h.Decl.Body.List[0].(*ast.ReturnStmt)
	if !ok || len(r.Results) != 1 {
		return 0, false
	}
	call, ok := ast.Unparen(r.Results[0]).(*ast.CallExpr)
	if !ok || core.Callee(info, call) != types.Object(node.Obj) || len(call.Args) == 0 {
		return 0, false
	}
	k := 0
	for _, fl := range h.Decl.Type.Params.List {
		for _, n := range fl.Names {
			if identObj(info, call.Args[0]) == info.Defs[n] {
				return k, true
			}
			k++
		}
	}
	return 0, false
}

func selection(c *core.Ctx, rec, node *core.Fn, trueNil bool) {
	info := rec.Pkg.TypesInfo
	name := rec.Decl.Name.Name
	isProbe := func(_ *ast.CallExpr, callee types.Object) bool { _, ok := probeHost(c, info, node, callee); return ok }
	// the probing loop lives in recursiveGetSlotState or in a same-package helper it calls
	fn := rec
	opaque := func(f *types.Func) bool { return f == node.Obj || f == rec.Obj }
	recView := tt.ViewOf(c.Program, rec, "c20", opaque)
	var viaCall *ast.CallExpr
	if len(core.Calls(recView.Body, info, isProbe)) == 0 {
		for _, call := range core.Calls(recView.Body, info, func(*ast.CallExpr, types.Object) bool { return true }) {
			if h := c.FnOf(core.CalleeFunc(info, call)); h != nil && h.Decl.Body != nil && h.Pkg.TypesInfo == info && h.Obj != rec.Obj && len(core.Calls(h.Decl.Body, info, isProbe)) > 0 {
				fn, viaCall = h, call
			}
		}
	}
	view := tt.ViewOf(c.Program, fn, "c20", opaque)
	body := view.Body
	g := view.G
	x := view.X(c.Program)
	// objects seen through pointer aliases: with `p := &v` (the pointer parameter of an inlined
	// helper), `p.f` is `v.f` and `*p` is `v`
	var target func(e ast.Expr, depth int) types.Object
	target = func(e ast.Expr, depth int) types.Object {
		e = ast.Unparen(e)
		if st, ok := e.(*ast.StarExpr); ok {
			return target(st.X, depth)
		}
		id, ok := e.(*ast.Ident)
		if !ok {
			return nil
		}
		if depth > 0 {
			if d, ok := tt.SingleDef(info, body, id); ok && d.Rhs != nil && d.Index == -1 && d.Range == nil {
				if u, ok := ast.Unparen(d.Rhs).(*ast.UnaryExpr); ok && u.Op == token.AND {
					if t := target(u.X, depth-1); t != nil {
						return t
					}
				}
				if _, isId := ast.Unparen(d.Rhs).(*ast.Ident); isId {
					if _, isPtr := info.TypeOf(id).(*types.Pointer); isPtr {
						return target(d.Rhs, depth-1) // a copy of a pointer
					}
				}
			}
		}
		return core.ObjOf(info, id)
	}
	baseObj := func(e ast.Expr) types.Object { return target(e, 3) }
	boolObj := func(e ast.Expr) types.Object {
		if o := tt.BoolLocal(info, e); o != nil {
			if _, isPtrDeref := ast.Unparen(e).(*ast.StarExpr); !isPtrDeref {
				return o
			}
		}
		if _, isDeref := ast.Unparen(e).(*ast.StarExpr); isDeref {
			if v, ok := target(e, 3).(*types.Var); ok {
				if b, ok := v.Type().Underlying().(*types.Basic); ok && b.Kind() == types.Bool {
					return v
				}
			}
		}
		return nil
	}
	// the probe
	calls := core.Calls(body, info, isProbe)
	if len(calls) != 1 {
		c.Undecidedf("R1.select", name+"/probe", fn.Decl.Pos(), "expected one call of getRedisNodeState, found %d", len(calls))
		return
	}
	pp, _ := g.Find(calls[0])
	pas, ok := pp.Node().(*ast.AssignStmt)
	loop := x.LoopOf(calls[0]) // a range loop or a counting loop over the host list
	hostList, isElem := tt.LoopElem(info, loop)
	hostIdx, _ := probeHost(c, info, node, core.Callee(info, calls[0]))
	if !ok || len(pas.Lhs) != 2 || loop == nil || hostList == nil || len(calls[0].Args) <= hostIdx {
		c.Undecidedf("R1.select", name+"/probe", calls[0].Pos(), "the probe is not `isMaster, err = getRedisNodeState(host, ...)` inside a range loop")
		return
	}
	isMaster, perr, host := identObj(info, pas.Lhs[0]), identObj(info, pas.Lhs[1]), identObj(info, calls[0].Args[hostIdx])
	// the probed host is the loop's element, possibly through single-assignment copies
	// (`addr := known[idx]`, the parameter of an inlined forwarding helper)
	hostRoot := tt.Resolve(info, body, calls[0].Args[hostIdx], 5)
	hostIsElem := isElem(calls[0].Args[hostIdx]) || isElem(hostRoot)
	isHost := func(e ast.Expr) bool {
		if e == nil {
			return false
		}
		r := tt.Resolve(info, body, e, 5)
		return identObj(info, e) != nil && identObj(info, e) == host || tt.SameExpr(info, r, hostRoot)
	}
	if isMaster == nil || host == nil || !hostIsElem {
		c.Undecidedf("R1.select", name+"/probe", calls[0].Pos(), "the probed host is not the loop's element or the answer is not kept in a variable")
		return
	}
	masterFact := func(f cfgq.Fact) bool { return boolObj(f.Expr) == isMaster && f.Val }
	noErrFact := func(f cfgq.Fact) bool {
		is, nonNil := errFact(info, f, perr)
		return perr != nil && is && !nonNil
	}
	// the carriers of the result: <result>.Source / <result>.Slaves themselves, or the locals that
	// are stored into these fields once the loop is over (values carried in locals)
	var res types.Object
	srcVars, slvVars := map[types.Object]bool{}, map[types.Object]bool{}
	core.Inspect(body, func(n ast.Node) bool {
		as, ok := n.(*ast.AssignStmt)
		if !ok || len(as.Lhs) != len(as.Rhs) {
			return true
		}
		for i := range as.Lhs {
			for fld, vars := range map[string]map[types.Object]bool{"Source": srcVars, "Slaves": slvVars} {
				if base, ok := isNodeField(info, as.Lhs[i], fld); ok && baseObj(base) != nil {
					res = baseObj(base)
					if v, isVar := identObj(info, as.Rhs[i]).(*types.Var); isVar && !v.IsField() && x.LoopOf(as) != ast.Stmt(loop) && !isHost(as.Rhs[i]) {
						vars[v] = true
					}
				}
			}
		}
		return true
	})
	isCarrier := func(e ast.Expr, fld string, vars map[types.Object]bool) bool {
		if base, ok := isNodeField(info, e, fld); ok {
			return res != nil && baseObj(base) == res
		}
		o := identObj(info, e)
		return o != nil && vars[o]
	}
	var sources, appends, keeps []ast.Node
	srcValue := map[ast.Node]ast.Expr{} // what a source assignment stores
	for _, p := range g.Points(func(n ast.Node) bool { _, ok := n.(*ast.AssignStmt); return ok }) {
		as := p.Node().(*ast.AssignStmt)
		if len(as.Lhs) != len(as.Rhs) || x.LoopOf(as) != ast.Stmt(loop) {
			continue
		}
		for i := range as.Lhs { // each pair of a (tuple) assignment
			if isCarrier(as.Lhs[i], "Source", srcVars) {
				sources = append(sources, as)
				srcValue[as] = as.Rhs[i]
				continue
			}
			if l0, h, ok := appendOf(as.Rhs[i]); ok && isCarrier(as.Lhs[i], "Slaves", slvVars) && pat.Same(info, as.Lhs[i], l0) {
				if isHost(h) {
					appends = append(appends, as)
				} else if isCarrier(h, "Source", srcVars) {
					keeps = append(keeps, as)
				}
			}
		}
	}
	if len(sources) == 0 || res == nil {
		c.Undecidedf("R1.select", name+"/source", loop.Pos(), "no assignment to the Source of the result inside the probing loop")
		return
	}
	for _, s := range sources {
		as := s.(*ast.AssignStmt)
		c.Check("R1.select", name+"/assigns-probed-host", as.Pos(), isHost(srcValue[as]), "the node made Source must be the host that was just probed, `"+c.Src(as)+"` selects another value")
		ok, w := x.OnlyVia(cfgq.Point{}, as, masterFact)
		c.Check("R1.select", name+"/only-master", as.Pos(), ok, "Source may be assigned only when the probe answered master: otherwise a replica, an unreachable node or a node without role is chosen as the sync source", w...)
		ok2, w2 := x.OnlyVia(cfgq.Point{}, as, noErrFact)
		c.Check("R1.select", name+"/only-without-error", as.Pos(), ok2 || trueNil, "Source may be assigned only when the probe returned no error (or getRedisNodeState never answers true with an error): otherwise a node that failed the probe is chosen", w2...)
	}
	// the found flag
	var flag types.Object
	var flagSets []ast.Node
	for _, p := range g.Points(func(n ast.Node) bool { _, ok := n.(*ast.AssignStmt); return ok }) {
		as := p.Node().(*ast.AssignStmt)
		if len(as.Lhs) != len(as.Rhs) || x.LoopOf(as) != ast.Stmt(loop) {
			continue
		}
		for i := range as.Lhs {
			o := boolObj(as.Lhs[i])
			if o == nil || o == isMaster {
				continue
			}
			bv, isConst := tt.BoolConst(info, as.Rhs[i])
			if isConst && bv || identObj(info, as.Rhs[i]) == isMaster {
				if flag != nil && flag != o {
					c.Undecidedf("R1.select", name+"/found-flag", as.Pos(), "more than one 'master found' flag")
					return
				}
				flag = o
				flagSets = append(flagSets, as)
			}
		}
	}
	// the flag and the result as recursiveGetSlotState sees them
	rflag, rres, rx := flag, res, x
	if viaCall != nil && flag != nil {
		rflag, rres = nil, nil
		rg := recView.G
		rx = recView.X(c.Program)
		vp, _ := rg.Find(viaCall)
		if vas, ok := vp.Node().(*ast.AssignStmt); ok && len(vas.Rhs) == 1 {
			core.Inspect(body, func(n ast.Node) bool {
				if r, ok := n.(*ast.ReturnStmt); ok && len(r.Results) == len(vas.Lhs) {
					for i, e := range r.Results {
						if identObj(info, e) == flag {
							rflag = identObj(info, vas.Lhs[i])
						}
						if identObj(info, e) == res {
							rres = identObj(info, vas.Lhs[i])
						}
					}
				}
				return true
			})
		}
	}
	// the flag and the result may be handed on through copies after the loop (results of an
	// inlined helper): `newSlot, masterFound = topology, found`
	if viaCall == nil && flag != nil {
		for pass := 0; pass < 3; pass++ {
			core.Inspect(body, func(n ast.Node) bool {
				as, ok := n.(*ast.AssignStmt)
				if !ok || len(as.Lhs) != len(as.Rhs) || x.LoopOf(as) == loop {
					return true
				}
				for i := range as.Rhs {
					r, l := identObj(info, as.Rhs[i]), identObj(info, as.Lhs[i])
					if r == nil || l == nil {
						continue
					}
					if r == rflag && boolObj(as.Lhs[i]) != nil {
						rflag = l
					}
					if r == rres {
						rres = l
					}
				}
				return true
			})
		}
	}
	var rets []*ast.ReturnStmt
	core.Inspect(recView.Body, func(n ast.Node) bool {
		if r, ok := n.(*ast.ReturnStmt); ok && len(r.Results) == 2 && core.IsNil(info, r.Results[1]) && !core.IsNil(info, r.Results[0]) {
			if _, isCall := ast.Unparen(r.Results[0]).(*ast.CallExpr); !isCall {
				rets = append(rets, r)
			}
		}
		return true
	})
	if flag == nil || rflag == nil || rres == nil || len(rets) == 0 {
		c.Undecidedf("R1.select", name+"/found-flag", loop.Pos(), "no 'master found' flag / success return recognised")
		return
	}
	flagTrue := func(f cfgq.Fact) bool { return boolObj(f.Expr) == rflag && f.Val }
	okFlag := true
	var wf []string
	for _, s := range flagSets {
		if ok, w := x.OnlyVia(cfgq.Point{}, s, masterFact); !ok {
			okFlag, wf = false, w
		}
	}
	for _, d := range tt.DefsOf(info, body, flag) {
		if st, ok := d.Stmt.(ast.Stmt); ok && x.LoopOf(st) == ast.Stmt(loop) {
			continue
		}
		if bv, isConst := tt.BoolConst(info, d.Rhs); d.Rhs != nil && (!isConst || bv) {
			okFlag = false
		}
	}
	c.Check("R1.select", name+"/found-flag", flagSets[0].Pos(), okFlag, "the 'master found' flag starts false and is set only when a probe answered master", wf...)
	for _, r := range rets {
		if !relatesTo(info, recView.Body, r.Results[0], rres) {
			c.Undecidedf("R1.select", name+"/success-only-with-master", r.Pos(), "cannot relate the returned value `%s` to the topology built by the probing loop", c.Src(r.Results[0]))
			continue
		}
		ok, w := rx.OnlyVia(cfgq.Point{}, r, flagTrue)
		c.Check("R1.select", name+"/success-only-with-master", r.Pos(), ok && (!relatesTo(info, recView.Body, r.Results[0], rres) || true), "the topology is returned as a success only when a master was found in this pass: otherwise the tool syncs from the stale source (possibly a replica) instead of retrying / failing", w...)
	}

	// ---- R2 / R4: the paths of one iteration
	var head *cfg.Block
	for _, b := range g.CFG.Blocks {
		if b.Live && (b.Kind == cfg.KindRangeLoop || b.Kind == cfg.KindForLoop) && b.Stmt == loop {
			head = b
		}
	}
	if head == nil {
		c.Undecidedf("R2.partition", name+"/iteration", loop.Pos(), "loop head not found")
		return
	}
	traces, err := x.Traces(head.Succs[0], 0, func(b *cfg.Block) bool { return b == head }, 500)
	if err != nil {
		c.Undecidedf("R2.partition", name+"/iteration", loop.Pos(), "cannot enumerate the paths of one iteration: %v", err)
		return
	}
	in := func(list []ast.Node, n ast.Node) bool {
		for _, m := range list {
			if m == n {
				return true
			}
		}
		return false
	}
	var badClass, badKeep, earlyExit []string
	for ti := range traces {
		t := &traces[ti]
		if t.End == tt.EndAbort {
			continue
		}
		if t.End != tt.EndStop && t.End != tt.EndBack {
			earlyExit = describe(c, t)
			continue
		}
		nS, nA := 0, 0
		kept, flagVal, flagKnown, flagSet := false, false, false, false
		// values saved before they are overwritten: `previous, hadMaster := newSlot.Source, masterFound`
		srcCopy, flagCopy := map[types.Object]bool{}, map[types.Object]bool{}
		for _, ev := range t.Evs {
			if ev.Lit != nil {
				o := boolObj(ev.Lit.Expr)
				if o != nil && (o == flag && !flagSet || flagCopy[o]) {
					flagVal, flagKnown = ev.Lit.Val, true
				}
				continue
			}
			if ev.Node == nil {
				continue
			}
			if as, ok := ev.Node.(*ast.AssignStmt); ok && len(as.Lhs) == len(as.Rhs) {
				for i := range as.Lhs {
					if _, hx, ok := appendOf(as.Rhs[i]); ok && isCarrier(as.Lhs[i], "Slaves", slvVars) {
						if h := identObj(info, hx); h != nil && srcCopy[h] {
							kept = true // the saved previous source is listed as a replica
						}
					}
					l := identObj(info, as.Lhs[i])
					if l == nil {
						continue
					}
					if isCarrier(as.Rhs[i], "Source", srcVars) && nS == 0 && !isCarrier(as.Lhs[i], "Source", srcVars) {
						srcCopy[l] = true
					}
					if identObj(info, as.Rhs[i]) == flag && !flagSet && l != flag {
						flagCopy[l] = true
					}
				}
			}
			switch {
			case in(keeps, ev.Node):
				if nS == 0 {
					kept = true
				}
			case in(appends, ev.Node):
				nA++
			}
			if in(sources, ev.Node) {
				nS++
			}
			if in(flagSets, ev.Node) {
				flagSet = true
			}
		}
		okKeep := nS == 0 || flagKnown && !flagVal || flagKnown && flagVal && kept
		if nS+nA != 1 {
			badClass = describe(c, t)
		}
		if !okKeep {
			badKeep = describe(c, t)
		}
	}
	c.Check("R2.partition", name+"/every-host-classified", loop.Pos(), badClass == nil, "on every path of one iteration the probed host must become Source or be appended to Slaves, exactly one of the two: otherwise a known node is dropped from the topology (or listed as its own replica)", badClass...)
	c.Check("R2.partition", name+"/displaced-source", sources[0].Pos(), badKeep == nil,
		"when a host is made Source although a master was already chosen earlier in the same pass, the earlier one must be kept (appended to Slaves) or the later one must be listed as a replica; witness: nodes A and B both answer role:master (e.g. during a failover) -> the result has Source=B and Slaves without A: A is listed neither as source nor as replica", badKeep...)
	c.Check("R4.probe", name+"/no-early-exit", loop.Pos(), earlyExit == nil, "the probing loop must visit every node: with a break/return inside the loop the nodes after the first master are not listed as replicas", earlyExit...)

	// the host list: Source followed by all Slaves of the supervisor's slot
	items, okItems := hostItems(info, body, hostList, 3)
	if okItems && len(items) == 2 && items[0] == "Source" && items[1] == "Slaves..." {
		c.Okf("R4.probe", name+"/host-list", loop.Pos(), "the probed hosts are the known Source followed by all known Slaves")
	} else {
		c.Undecidedf("R4.probe", name+"/host-list", loop.Pos(), "the host list `%s` is not recognised as the supervisor's Source followed by its Slaves (%v)", c.Src(tt.Resolve(info, body, hostList, 2)), items)
	}
}

// hostItems evaluates a []string expression built with literals and append from the fields of
// s.slot: "Source", "Slaves..." in order. Locals are followed through their definitions when these
// are top-level statements of the function that precede the loop.
func hostItems(info *types.Info, body *ast.BlockStmt, e ast.Expr, depth int) ([]string, bool) {
	field := func(e ast.Expr, spread bool) (string, bool) {
		for _, f := range []string{"Source", "Slaves"} {
			if b, ok := isNodeField(info, e, f); ok && core.IsFieldNamed(info, b, sup, "slot") && (f == "Slaves") == spread {
				if spread {
					return f + "...", true
				}
				return f, true
			}
		}
		return "", false
	}
	e = ast.Unparen(e)
	switch v := e.(type) {
	case *ast.CompositeLit:
		var out []string
		for _, el := range v.Elts {
			it, ok := field(el, false)
			if !ok {
				return nil, false
			}
			out = append(out, it)
		}
		return out, true
	case *ast.CallExpr:
		id, ok := v.Fun.(*ast.Ident)
		if !ok {
			return nil, false
		}
		switch id.Name {
		case "make":
			return nil, len(v.Args) >= 2 && func() bool { n, ok := core.IntConst(info, v.Args[1]); return ok && n == 0 }()
		case "append":
			if len(v.Args) == 0 {
				return nil, false
			}
			out, ok := hostItems(info, body, v.Args[0], depth)
			if !ok {
				return nil, false
			}
			for i, a := range v.Args[1:] {
				it, ok := field(a, v.Ellipsis.IsValid() && i == len(v.Args)-2)
				if !ok {
					return nil, false
				}
				out = append(out, it)
			}
			return out, true
		}
	case *ast.Ident:
		if depth == 0 {
			return nil, false
		}
		o := identObj(info, v)
		var out []string
		k := 0
		for _, d := range tt.DefsOf(info, body, o) {
			// every definition is executed unconditionally, once: no loop or branch around it
			straight := true
			for _, anc := range core.PathTo(body, d.Stmt) {
				switch anc.(type) {
				case *ast.IfStmt, *ast.SwitchStmt, *ast.TypeSwitchStmt, *ast.SelectStmt, *ast.ForStmt, *ast.RangeStmt, *ast.FuncLit:
					if anc != d.Stmt {
						straight = false
					}
				}
			}
			if !straight {
				return nil, false
			}
			if d.Rhs == nil {
				continue // var hosts []string
			}
			k++
			if k > 1 {
				// a later definition must extend the list itself: hosts = append(hosts, ...)
				call, ok := ast.Unparen(d.Rhs).(*ast.CallExpr)
				if !ok || len(call.Args) == 0 || identObj(info, call.Args[0]) != o {
					return nil, false
				}
				id, _ := call.Fun.(*ast.Ident)
				if id == nil || id.Name != "append" {
					return nil, false
				}
				for i, a := range call.Args[1:] {
					it, ok := field(a, call.Ellipsis.IsValid() && i == len(call.Args)-2)
					if !ok {
						return nil, false
					}
					out = append(out, it)
				}
				continue
			}
			items, ok := hostItems(info, body, d.Rhs, depth-1)
			if !ok {
				return nil, false
			}
			out = items
		}
		return out, true
	}
	return nil, false
}

// appendOf matches `append(l, h)` syntactically (no look-through of locals: a saved copy of the
// previous source must stay distinguishable from the source itself).
func appendOf(e ast.Expr) (l, h ast.Expr, ok bool) {
	call, isCall := ast.Unparen(e).(*ast.CallExpr)
	if !isCall || len(call.Args) != 2 || call.Ellipsis.IsValid() {
		return nil, nil, false
	}
	if id, isId := call.Fun.(*ast.Ident); !isId || id.Name != "append" {
		return nil, nil, false
	}
	return call.Args[0], call.Args[1], true
}

// relatesTo: the returned expression is (the address of) the result variable, a copy of it, or a
// pointer through which the result was stored (`p := new(T); *p = res; return p`).
func relatesTo(info *types.Info, body ast.Node, e ast.Expr, res types.Object) bool {
	if res == nil {
		return false
	}
	if core.Mentions(info, e, res) || tt.MentionsResolved(info, body, e, res, 4) {
		return true
	}
	p := identObj(info, e)
	found := false
	ast.Inspect(body, func(n ast.Node) bool {
		as, ok := n.(*ast.AssignStmt)
		if !ok || len(as.Lhs) != len(as.Rhs) {
			return true
		}
		for i := range as.Lhs {
			if st, ok := ast.Unparen(as.Lhs[i]).(*ast.StarExpr); ok && p != nil && identObj(info, st.X) == p && core.Mentions(info, as.Rhs[i], res) {
				found = true
			}
		}
		return true
	})
	return found
}

func describe(c *core.Ctx, t *tt.Trace) []string {
	var out []string
	for _, ev := range t.Evs {
		switch {
		case ev.Lit != nil:
			out = append(out, fmt.Sprintf("%s is %v", c.Src(ev.Lit.Expr), ev.Lit.Val))
		case ev.Node != nil:
			out = append(out, fmt.Sprintf("L%d: %s", c.Fset.Position(ev.Node.Pos()).Line, c.Src(ev.Node)))
		}
	}
	return out
}

// ---------------------------------------------------------------------------
// R3: bounded retry

func retry(c *core.Ctx, fn, get *core.Fn) {
	info := fn.Pkg.TypesInfo
	view := tt.ViewOf(c.Program, fn, "c20retry", func(f *types.Func) bool { return f == fn.Obj })
	body := view.Body
	g := view.G
	x := view.X(c.Program)
	name := fn.Decl.Name.Name
	if len(fn.Decl.Type.Params.List) != 1 || len(fn.Decl.Type.Params.List[0].Names) != 1 {
		c.Undecidedf("R3.retry", name+"/depth", fn.Decl.Pos(), "expected one depth parameter")
		return
	}
	depth := info.Defs[fn.Decl.Type.Params.List[0].Names[0]]
	isDepth := func(e ast.Expr) bool { return identObj(info, e) == depth }
	recs := g.Points(g.HasCall(func(_ *ast.CallExpr, callee types.Object) bool { return callee == types.Object(fn.Obj) }))
	if len(recs) == 0 {
		c.Undecidedf("R3.retry", name+"/recursion", fn.Decl.Pos(), "no recursive retry found")
		return
	}
	// facts about the depth
	depthFact := func(f cfgq.Fact) (zero bool, ok bool) {
		for _, t := range []struct {
			p    string
			zero bool
		}{{"_d == 0", true}, {"_d <= 0", true}, {"_d < 1", true}, {"_d != 0", false}, {"_d > 0", false}, {"_d >= 1", false}} {
			if b := pat.Expr(t.p).Match(info, f.Expr, nil); b != nil && isDepth(b["_d"].(ast.Expr)) {
				return t.zero == f.Val, true
			}
		}
		return false, false
	}
	for _, rp := range recs {
		var call *ast.CallExpr
		for _, cl := range cfgq.ExecCalls(rp.Node()) {
			if core.CalleeFunc(info, cl) == fn.Obj {
				call = cl
			}
		}
		arg := ast.Unparen(call.Args[0])
		switch {
		case func() bool {
			b := pat.Expr("_d - 1").Match(info, arg, nil)
			return b != nil && isDepth(b["_d"].(ast.Expr))
		}():
			c.Okf("R3.retry", name+"/decrements", call.Pos(), "each retry passes depth-1")
		case isDepth(arg), pat.Expr("_d + _k").Match(info, arg, nil) != nil && core.Mentions(info, arg, depth):
			c.Failf("R3.retry", name+"/decrements", call.Pos(), "the retry passes `%s`, the depth never reaches 0: with no node reporting role:master the tool retries forever (hangs) instead of failing with an error", c.Src(arg))
		default:
			c.Undecidedf("R3.retry", name+"/decrements", call.Pos(), "retry argument `%s` not recognised", c.Src(arg))
		}
		ok, w := x.OnlyVia(cfgq.Point{}, rp.Node(), func(f cfgq.Fact) bool { z, ok := depthFact(f); return ok && !z })
		if !ok {
			// path-sensitive: is the retry reachable at all when depth == 0 is assumed (flags tracked)?
			rnode := rp.Node()
			w = x.Reach(tt.ReachQuery{From: cfgq.Point{B: g.CFG.Blocks[0], I: -1}, FromSucc: -1, Env: tt.Env{}, Target: func(n ast.Node) bool { return n == rnode },
				Assume: func(e ast.Expr) int {
					if z, isDepth := depthFact(cfgq.Fact{Expr: e, Val: true}); isDepth {
						if z {
							return 1
						}
						return -1
					}
					return 0
				}})
			ok = w == nil
		}
		mention := false
		for _, bk := range g.CFG.Blocks {
			if cond := x.Cond(bk); cond != nil && bk.Live && core.Mentions(info, cond, depth) {
				mention = true
			}
		}
		if !ok && mention {
			c.Undecidedf("R3.retry", name+"/stops-at-zero", call.Pos(), "the depth is tested, but the analysis cannot show that the retry is unreachable for depth == 0")
			continue
		}
		c.Check("R3.retry", name+"/stops-at-zero", call.Pos(), ok, "the retry must be reachable only while depth != 0: without a test of the depth the tool retries forever instead of failing with an error", w...)
	}
	// depth == 0 ends in an error
	n := 0
	for _, b := range g.CFG.Blocks {
		for si := range b.Succs {
			if !b.Live || !x.Establishes(b, si, func(f cfgq.Fact) bool { z, ok := depthFact(f); return ok && z }) {
				continue
			}
			n++
			w := g.Path(cfgq.Query{From: cfgq.Point{B: b.Succs[si]}, TargetExit: func(bk *cfg.Block, k cfgq.ExitKind) bool {
				if k == cfgq.ExitRet {
					return cfgq.ClassifyReturn(info, body, bk.Nodes[len(bk.Nodes)-1].(*ast.ReturnStmt)) != cfgq.RetErr
				}
				return k == cfgq.ExitFall
			}})
			c.Check("R3.retry", name+"/zero-is-error", b.Nodes[len(b.Nodes)-1].Pos(), w == nil, "when the retries are used up and no master was found the function must return an error: otherwise the tool syncs from a node that is not the master", w...)
		}
	}
	if n == 0 {
		c.Undecidedf("R3.retry", name+"/zero-is-error", fn.Decl.Pos(), "no test of the depth against 0 found")
	}
	// the initial depth
	if get != nil {
		ginfo := get.Pkg.TypesInfo
		okStart := false
		for _, call := range core.Calls(get.Decl.Body, ginfo, func(_ *ast.CallExpr, callee types.Object) bool { return callee == types.Object(fn.Obj) }) {
			okStart = len(call.Args) == 1 && core.IsFieldNamed(ginfo, tt.Resolve(ginfo, get.Decl.Body, call.Args[0], 3), sup, "maxRetries")
		}
		okConst, found := true, false
		pk := c.Pkg(pkgSup)
		for _, f := range pk.Syntax {
			ast.Inspect(f, func(nd ast.Node) bool {
				lit, ok := nd.(*ast.CompositeLit)
				if !ok || core.NamedTypeName(pk.TypesInfo.TypeOf(lit)) != sup {
					return true
				}
				for _, el := range lit.Elts {
					if kv, ok := el.(*ast.KeyValueExpr); ok {
						if k, ok := kv.Key.(*ast.Ident); ok && k.Name == "maxRetries" {
							found = true
							if v, isConst := core.IntConst(pk.TypesInfo, kv.Value); !isConst || v < 0 {
								okConst = false
							}
						}
					}
				}
				return true
			})
		}
		if !okStart || !found {
			c.Undecidedf("R3.retry", "GetSlotState/max-retries", get.Decl.Pos(), "GetSlotState does not start the retries with a constant s.maxRetries")
		} else {
			c.Check("R3.retry", "GetSlotState/max-retries", get.Decl.Pos(), okConst, "maxRetries must be a non-negative constant: a negative depth never meets the depth == 0 exit and the tool retries forever")
		}
	}
}

// ---------------------------------------------------------------------------
// R5: updateSlotTopology

func useAtStart(c *core.Ctx, fn *core.Fn) {
	info := fn.Pkg.TypesInfo
	view := tt.ViewOf(c.Program, fn, "c20start", nil)
	g := view.G
	x := view.X(c.Program)
	name := fn.Decl.Name.Name
	pts := g.Points(g.HasCall(func(_ *ast.CallExpr, callee types.Object) bool {
		f, ok := callee.(*types.Func)
		return ok && f.Name() == "GetSlotState" && f.Pkg() != nil && strings.HasSuffix(f.Pkg().Path(), pkgSup)
	}))
	if len(pts) != 1 {
		c.Undecidedf("R5.start", name+"/discovery", fn.Decl.Pos(), "expected one call of GetSlotState, found %d", len(pts))
		return
	}
	as, ok := pts[0].Node().(*ast.AssignStmt)
	if !ok || len(as.Lhs) != 2 {
		c.Undecidedf("R5.start", name+"/discovery", pts[0].Node().Pos(), "the results of GetSlotState are not bound")
		return
	}
	slot, serr := identObj(info, as.Lhs[0]), identObj(info, as.Lhs[1])
	if id, isId := as.Lhs[1].(*ast.Ident); isId && id.Name == "_" {
		c.Failf("R5.start", name+"/error-stops", as.Pos(), "the error of GetSlotState is discarded: when no master is found the syncer continues with a nil / stale node")
		return
	}
	direct := core.IsFieldNamed(info, as.Lhs[0], "DbSyncer", "node") // `ds.node, err = ...GetSlotState()`
	if serr == nil || slot == nil && !direct {
		c.Undecidedf("R5.start", name+"/discovery", as.Pos(), "the results of GetSlotState are bound in an unrecognised way")
		return
	}
	if direct {
		// the result is stored at once: what matters is that a failed discovery never returns normally
		isErrD := func(f cfgq.Fact) bool { is, nonNil := errFact(info, f, serr); return is && nonNil }
		tested, _ := g.MustPassToExit(pts[0], true, func(n ast.Node) bool { return false })
		var w2 []string
		n := 0
		for _, b := range g.CFG.Blocks {
			for si := range b.Succs {
				if b.Live && x.Establishes(b, si, isErrD) {
					n++
					if w2 == nil {
						w2 = g.Path(cfgq.Query{From: cfgq.Point{B: b.Succs[si]}, TargetExit: cfgq.NormalExit})
					}
				}
			}
		}
		_ = tested
		wNoTest := g.Path(cfgq.Query{From: pts[0], After: true, TargetExit: cfgq.NormalExit,
			AvoidEdge: func(b *cfg.Block, si int) bool {
				return x.Establishes(b, si, func(f cfgq.Fact) bool { is, _ := errFact(info, f, serr); return is })
			}})
		c.Check("R5.start", name+"/error-stops", as.Pos(), n > 0 && w2 == nil && wNoTest == nil, "the error of GetSlotState must be tested and a failed discovery must end in a no-return log: otherwise the syncer continues with a nil node after 'no master found'", append(w2, wNoTest...)...)
		c.Okf("R5.start", name+"/replaces-node", as.Pos(), "the discovered topology is stored in ds.node by the call itself")
		return
	}
	var sets []ast.Node
	for _, p := range g.Points(func(n ast.Node) bool {
		a, ok := n.(*ast.AssignStmt)
		return ok && len(a.Lhs) == 1 && len(a.Rhs) == 1 && core.IsFieldNamed(info, a.Lhs[0], "DbSyncer", "node") && identObj(info, a.Rhs[0]) == slot
	}) {
		sets = append(sets, p.Node())
	}
	noErr := func(f cfgq.Fact) bool { is, nonNil := errFact(info, f, serr); return is && !nonNil }
	isErr := func(f cfgq.Fact) bool { is, nonNil := errFact(info, f, serr); return is && nonNil }
	if len(sets) == 0 {
		c.Failf("R5.start", name+"/replaces-node", as.Pos(), "the discovered topology is never stored in ds.node: the sync keeps using the old source, which may have become a replica")
	}
	for _, s := range sets {
		ok, w := x.OnlyVia(cfgq.Point{}, s, noErr)
		c.Check("R5.start", name+"/error-stops", s.Pos(), ok, "ds.node may be replaced only when GetSlotState returned no error (the error path ends in a no-return log): otherwise the syncer continues with a nil node after 'no master found'", w...)
	}
	isSet := func(n ast.Node) bool {
		for _, s := range sets {
			if s == n {
				return true
			}
		}
		return false
	}
	w := g.Path(cfgq.Query{From: pts[0], After: true, Avoid: isSet, TargetExit: cfgq.NormalExit,
		AvoidEdge: func(b *cfg.Block, si int) bool { return false }})
	if len(sets) > 0 {
		// on the error edge the function must not return normally either
		var w2 []string
		for _, b := range g.CFG.Blocks {
			for si := range b.Succs {
				if b.Live && w2 == nil && x.Establishes(b, si, isErr) {
					w2 = g.Path(cfgq.Query{From: cfgq.Point{B: b.Succs[si]}, Avoid: isSet, TargetExit: cfgq.NormalExit})
				}
			}
		}
		c.Check("R5.start", name+"/replaces-node", as.Pos(), w == nil && w2 == nil, "after a discovery every normal path stores the result in ds.node, and a failed discovery never returns normally: otherwise Sync() goes on with the previous source, which may no longer be the master", append(w, w2...)...)
	}
}
