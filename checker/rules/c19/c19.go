// Package c19 decides property C19 (passwords never reach logs / status
// output) by type reachability and SSA value taint (engine E6).
package c19

import (
	"fmt"
	"go/ast"
	"go/token"
	"go/types"
	"sort"
	"strings"

	"golang.org/x/tools/go/cfg"
	"golang.org/x/tools/go/packages"
	"golang.org/x/tools/go/ssa"
	"golang.org/x/tools/go/ssa/ssautil"

	"rscheck/cfgq"
	"rscheck/core"
	"rscheck/driver"
	"rscheck/pat"
)

var Def = driver.PropDef{
	ID: "C19",
	Explanation: "Secret-flow analysis over the whole module. Sources: every struct field of a module type whose name contains 'password'/'passwd' (conf.Configuration.{Source,Target}Password{Raw,Encoding}, slot.SyncNode.{Source,Target}Password, dbRestorer.targetPassword, dbDumper.sourcePassword, producer.password, ...). " +
		"Sinks: every call from outside pkg/libs/log into pkg/libs/log (functions and Logger methods), fmt.Print*, fmt.Fprint* to os.Stdout/os.Stderr, the values returned by handlers registered with RegisterAPI, and the argument of json.Marshal*. " +
		"R1 type reachability: no sink argument has a static type (looking through interface boxing and variadic packing) from which a source field is reachable through pointers, structs, slices, arrays and maps, unless it is the direct result of the total sanitizer GetSafeOptions. " +
		"R2 value taint: no SSA value derived from a load of a source field (copies, conversions, concatenation, formatting through any non-module function, container stores, parameters and results of module functions, closures, interface method results resolved over the module's implementations) reaches a sink argument. " +
		"R3 the sanitizer GetSafeOptions overwrites every source field of Configuration with a constant on the value it returns. " +
		"R4 (AST, package main is ill-typed on the pinned tree) no sink call or REST handler in redis-shake/main mentions conf.Options as a whole value or one of its source fields.",
	NotDecided: "leaks through third-party libraries' own logging (redigo, go-sentinel receive the password for AUTH); side effects of callees on objects passed by pointer are tracked only through returns, not through aliasing.",
	Trusted:    []string{"go/types, go/ssa (x/tools v0.29.0)", "the sink list (pkg/libs/log, fmt to std streams, RegisterAPI handlers, json.Marshal)", "non-module functions are treated as propagating taint from any argument to their result"},
	Run:        Run,
}

const logPkg = core.Module + "/pkg/libs/log"

func isSourceName(n string) bool {
	l := strings.ToLower(n)
	return strings.Contains(l, "password") || strings.Contains(l, "passwd")
}

type analysis struct {
	c       *core.Ctx
	prog    *ssa.Program
	fns     []*ssa.Function
	sources map[*types.Var]string // field -> "Type.Field"
	tainted map[ssa.Value]string  // value -> reason (origin)
	globals map[*ssa.Global]string
	retT    map[*ssa.Function]string // function returns tainted value
	changed bool
	reach   map[types.Type]string
	impls   map[string][]*ssa.Function
}

func inModule(p *types.Package) bool {
	return p != nil && strings.HasPrefix(p.Path(), core.Module)
}

func Run(c *core.Ctx) {
	a := &analysis{c: c, sources: map[*types.Var]string{}, tainted: map[ssa.Value]string{}, globals: map[*ssa.Global]string{},
		retT: map[*ssa.Function]string{}, reach: map[types.Type]string{}, impls: map[string][]*ssa.Function{}}

	// ---- sources
	for _, pk := range c.Pkgs {
		if pk.Types == nil || pk.ID != pk.PkgPath {
			continue
		}
		sc := pk.Types.Scope()
		for _, n := range sc.Names() {
			tn, ok := sc.Lookup(n).(*types.TypeName)
			if !ok {
				continue
			}
			st, ok := tn.Type().Underlying().(*types.Struct)
			if !ok {
				continue
			}
			for i := 0; i < st.NumFields(); i++ {
				f := st.Field(i)
				if isSourceName(f.Name()) && carries(f.Type()) {
					a.sources[f] = tn.Name() + "." + f.Name()
				}
			}
		}
	}
	var names []string
	for _, n := range a.sources {
		names = append(names, n)
	}
	sort.Strings(names)
	c.Note("source fields: %s", strings.Join(names, ", "))
	for _, must := range []string{"Configuration.SourcePasswordRaw", "Configuration.SourcePasswordEncoding", "Configuration.TargetPasswordRaw", "Configuration.TargetPasswordEncoding", "SyncNode.SourcePassword", "SyncNode.TargetPassword"} {
		found := false
		for _, n := range names {
			found = found || n == must
		}
		if !found {
			c.Undecidedf("sources", must, token.NoPos, "password field %s not found in the module: the source set lost an anchor", must)
		}
	}

	// ---- SSA
	var init []*packages.Package
	for _, pk := range c.Pkgs {
		if pk.ID == pk.PkgPath {
			init = append(init, pk)
		}
	}
	prog, _ := ssautil.Packages(init, ssa.InstantiateGenerics)
	prog.Build()
	a.prog = prog
	for fn := range ssautil.AllFunctions(prog) {
		if fn.Blocks != nil && fn.Pkg != nil && inModule(fn.Pkg.Pkg) {
			a.fns = append(a.fns, fn)
		}
	}
	sort.Slice(a.fns, func(i, j int) bool { return a.fns[i].String() < a.fns[j].String() })
	if len(a.fns) < 700 {
		c.Undecidedf("instances", "ssa-functions", token.NoPos, "only %d module functions built to SSA, 700+ expected", len(a.fns))
	}
	c.Note("SSA functions analysed: %d", len(a.fns))
	for _, fn := range a.fns {
		if fn.Signature.Recv() != nil {
			a.impls[fn.Name()] = append(a.impls[fn.Name()], fn)
		}
	}

	// ---- taint fixpoint
	for iter := 0; iter < 50; iter++ {
		a.changed = false
		for _, fn := range a.fns {
			a.flow(fn)
		}
		if !a.changed {
			break
		}
	}

	// ---- sinks
	a.sinks()
	a.sanitizer()
	a.mainAST()
}

// carries: can a value of this type hold string data?
func carries(t types.Type) bool {
	switch u := t.Underlying().(type) {
	case *types.Basic:
		return u.Info()&types.IsString != 0 || u.Kind() == types.UnsafePointer || u.Kind() == types.UntypedNil
	case *types.Signature, *types.Chan:
		return false
	case *types.Tuple:
		for i := 0; i < u.Len(); i++ {
			if carries(u.At(i).Type()) {
				return true
			}
		}
		return false
	}
	return true
}

func (a *analysis) mark(v ssa.Value, why string) {
	if v == nil || !carries(v.Type()) {
		return
	}
	if _, ok := v.(*ssa.Const); ok {
		return
	}
	if _, ok := a.tainted[v]; !ok {
		a.tainted[v] = why
		a.changed = true
	}
}

func (a *analysis) is(v ssa.Value) (string, bool) {
	if g, ok := v.(*ssa.Global); ok {
		w, ok := a.globals[g]
		return w, ok
	}
	w, ok := a.tainted[v]
	return w, ok
}

// root strips address arithmetic down to the underlying object value.
func root(v ssa.Value) ssa.Value {
	for {
		switch x := v.(type) {
		case *ssa.FieldAddr:
			v = x.X
		case *ssa.IndexAddr:
			v = x.X
		case *ssa.Slice:
			v = x.X
		case *ssa.ChangeType:
			v = x.X
		default:
			return v
		}
	}
}

func (a *analysis) pos(p token.Pos) string { return a.c.Pos(p) }

func (a *analysis) flow(fn *ssa.Function) {
	for _, b := range fn.Blocks {
		for _, ins := range b.Instrs {
			switch x := ins.(type) {
			case *ssa.FieldAddr:
				f := fieldOf(x.X.Type(), x.Field)
				if name, ok := a.sources[f]; ok {
					a.mark(x, "address of "+name+" at "+a.pos(x.Pos()))
				} else if w, ok := a.is(x.X); ok {
					a.mark(x, w)
				}
			case *ssa.Field:
				f := fieldOf(x.X.Type(), x.Field)
				if name, ok := a.sources[f]; ok {
					a.mark(x, "load of "+name+" at "+a.pos(x.Pos()))
				} else if w, ok := a.is(x.X); ok {
					a.mark(x, w)
				}
			case *ssa.UnOp:
				if w, ok := a.is(x.X); ok && (x.Op == token.MUL || x.Op == token.ARROW) {
					a.mark(x, w)
				}
			case *ssa.BinOp:
				if x.Op == token.ADD {
					for _, o := range []ssa.Value{x.X, x.Y} {
						if w, ok := a.is(o); ok {
							a.mark(x, w)
						}
					}
				}
			case *ssa.Phi:
				for _, e := range x.Edges {
					if w, ok := a.is(e); ok {
						a.mark(x, w)
					}
				}
			case *ssa.MakeInterface:
				// boxing a value whose type carries a password field: the box prints the
				// field with %v/json wherever it ends up (maps, slices, status documents)
				it, _ := x.Type().Underlying().(*types.Interface)
				if r := a.reaches(x.X.Type()); r != "" && it != nil && it.NumMethods() == 0 && !a.isSanitized(x.X) {
					a.mark(x, fmt.Sprintf("boxed %s (reaches %s) at %s", x.X.Type().String(), r, a.pos(x.Pos())))
				} else if w, ok := a.is(x.X); ok {
					a.mark(x, w)
				}
			case *ssa.ChangeType, *ssa.Convert, *ssa.ChangeInterface, *ssa.TypeAssert, *ssa.Extract, *ssa.Slice,
				*ssa.Index, *ssa.IndexAddr, *ssa.Lookup, *ssa.SliceToArrayPointer, *ssa.MultiConvert, *ssa.Range, *ssa.Next:
				v := ins.(ssa.Value)
				for _, op := range ins.Operands(nil) {
					if op == nil || *op == nil {
						continue
					}
					// index operands do not carry
					if w, ok := a.is(*op); ok {
						a.mark(v, w)
						break
					}
				}
			case *ssa.Store:
				if w, ok := a.is(x.Val); ok {
					// storing into a password field does not taint the container: the
					// field is a source already and printing the container whole is
					// what the type-reachability rule catches
					if fa, isFA := x.Addr.(*ssa.FieldAddr); isFA {
						if _, isSrc := a.sources[fieldOf(fa.X.Type(), fa.Field)]; isSrc {
							break
						}
					}
					a.taintObject(x.Addr, w)
				}
			case *ssa.MapUpdate:
				for _, o := range []ssa.Value{x.Key, x.Value} {
					if w, ok := a.is(o); ok {
						a.taintObject(x.Map, w)
					}
				}
			case *ssa.Send:
				if w, ok := a.is(x.X); ok {
					a.taintObject(x.Chan, w)
				}
			case *ssa.MakeClosure:
				cf, _ := x.Fn.(*ssa.Function)
				for i, bnd := range x.Bindings {
					if w, ok := a.is(bnd); ok && cf != nil && i < len(cf.FreeVars) {
						a.mark(cf.FreeVars[i], w)
					}
				}
			case *ssa.Return:
				for _, r := range x.Results {
					if w, ok := a.is(r); ok {
						if _, had := a.retT[fn]; !had {
							a.retT[fn] = w
							a.changed = true
						}
					}
				}
			case ssa.CallInstruction:
				a.call(fn, x)
			}
		}
	}
}

func (a *analysis) taintObject(addr ssa.Value, why string) {
	r := root(addr)
	switch o := r.(type) {
	case *ssa.Global:
		if _, ok := a.globals[o]; !ok {
			a.globals[o] = why
			a.changed = true
		}
	default:
		a.mark(r, why)
		// a load `*p` whose pointer came from a load of a local pointer variable: also mark the variable
		if u, ok := r.(*ssa.UnOp); ok && u.Op == token.MUL {
			a.mark(root(u.X), why)
		}
	}
}

func fieldOf(t types.Type, i int) *types.Var {
	if p, ok := t.Underlying().(*types.Pointer); ok {
		t = p.Elem()
	}
	st, ok := t.Underlying().(*types.Struct)
	if !ok || i >= st.NumFields() {
		return nil
	}
	return st.Field(i)
}

func transforms(path string) bool {
	switch path {
	case "fmt", "strings", "bytes", "strconv", "errors", "sort", "slices", "maps", "regexp", "html", "path", "path/filepath", "net/url", "github.com/pkg/errors":
		return true
	}
	return strings.HasPrefix(path, "encoding/") || strings.HasPrefix(path, "unicode") || strings.HasPrefix(path, "text/")
}

// callees resolves the module functions a call may reach (static callee, or
// for interface invocations every module method of that name whose receiver
// implements the interface).
func (a *analysis) callees(call *ssa.CallCommon) []*ssa.Function {
	if f := call.StaticCallee(); f != nil {
		return []*ssa.Function{f}
	}
	if call.IsInvoke() {
		var out []*ssa.Function
		it, _ := call.Value.Type().Underlying().(*types.Interface)
		for _, m := range a.impls[call.Method.Name()] {
			rt := m.Signature.Recv().Type()
			if it != nil && types.Implements(rt, it) {
				out = append(out, m)
			}
		}
		return out
	}
	return nil
}

func (a *analysis) call(caller *ssa.Function, ci ssa.CallInstruction) {
	call := ci.Common()
	v, _ := ci.(ssa.Value)
	args := call.Args
	if call.IsInvoke() {
		args = append([]ssa.Value{call.Value}, args...)
	}
	// The error AuthPassword returns embeds the server's raw reply to the AUTH
	// command, and a server's error reply quotes the command it rejects (`unknown
	// command X, with args beginning with: <password>` when auth_type names a
	// command the server does not know): the value is derived from the password.
	if f := call.StaticCallee(); f != nil && v != nil && f.Name() == "AuthPassword" && f.Pkg != nil && inModule(f.Pkg.Pkg) {
		for _, arg := range args {
			if w, ok := a.is(arg); ok {
				a.mark(v, "error of AuthPassword at "+a.pos(ci.Pos())+", which embeds the server's reply to the command that carried the password ("+w+")")
				break
			}
		}
	}
	cs := a.callees(call)
	handled := false
	for _, f := range cs {
		if f.Blocks == nil || f.Pkg == nil || !inModule(f.Pkg.Pkg) {
			continue
		}
		handled = true
		for i, arg := range args {
			if w, ok := a.is(arg); ok && i < len(f.Params) {
				a.mark(f.Params[i], w)
			}
		}
		if w, ok := a.retT[f]; ok && v != nil {
			a.mark(v, w)
		}
	}
	if !handled && v != nil {
		// pure transforming library functions (formatting, string/byte
		// manipulation, encoding, error construction): the result may contain
		// any argument. I/O, network and other third-party calls do not hand
		// their arguments back (a connection is not "derived from" the password
		// used to authenticate it).
		if f := call.StaticCallee(); f != nil && (f.Pkg == nil || !transforms(f.Pkg.Pkg.Path())) {
			return
		} else if f == nil {
			if _, isBuiltin := call.Value.(*ssa.Builtin); !isBuiltin {
				if _, isClosure := call.Value.(*ssa.MakeClosure); !isClosure {
					return
				}
			}
		}
		if b, ok := call.Value.(*ssa.Builtin); ok {
			switch b.Name() {
			case "len", "cap", "print", "println", "delete", "close", "panic", "recover":
				return
			}
		}
		for _, arg := range args {
			if w, ok := a.is(arg); ok {
				a.mark(v, w)
				return
			}
		}
		// closure call: free variables
		if w, ok := a.is(call.Value); ok && !call.IsInvoke() {
			a.mark(v, w)
		}
	}
}

// ---------------------------------------------------------------------------
// type reachability

func (a *analysis) reaches(t types.Type) string {
	return a.reachRec(t, map[types.Type]bool{})
}

func (a *analysis) reachRec(t types.Type, seen map[types.Type]bool) string {
	if t == nil || seen[t] {
		return ""
	}
	if r, ok := a.reach[t]; ok {
		return r
	}
	seen[t] = true
	res := ""
	switch u := t.Underlying().(type) {
	case *types.Pointer:
		res = a.reachRec(u.Elem(), seen)
	case *types.Slice:
		res = a.reachRec(u.Elem(), seen)
	case *types.Array:
		res = a.reachRec(u.Elem(), seen)
	case *types.Map:
		if res = a.reachRec(u.Key(), seen); res == "" {
			res = a.reachRec(u.Elem(), seen)
		}
	case *types.Struct:
		for i := 0; i < u.NumFields() && res == ""; i++ {
			f := u.Field(i)
			if n, ok := a.sources[f]; ok {
				res = n
				break
			}
			if r := a.reachRec(f.Type(), seen); r != "" {
				res = f.Name() + " -> " + r
			}
		}
	}
	delete(seen, t)
	a.reach[t] = res
	return res
}

// unbox returns the values whose static types describe what a sink argument
// prints: looks through MakeInterface and variadic packing.
func (a *analysis) unbox(v ssa.Value, depth int) []ssa.Value {
	if depth > 4 {
		return []ssa.Value{v}
	}
	switch x := v.(type) {
	case *ssa.MakeInterface:
		return a.unbox(x.X, depth+1)
	case *ssa.ChangeInterface:
		return a.unbox(x.X, depth+1)
	case *ssa.Slice:
		if al, ok := x.X.(*ssa.Alloc); ok {
			var out []ssa.Value
			for _, ref := range *al.Referrers() {
				ia, ok := ref.(*ssa.IndexAddr)
				if !ok {
					continue
				}
				for _, r2 := range *ia.Referrers() {
					if st, ok := r2.(*ssa.Store); ok && st.Addr == ia {
						out = append(out, a.unbox(st.Val, depth+1)...)
					}
				}
			}
			if len(out) > 0 {
				return out
			}
		}
	case *ssa.Phi:
		var out []ssa.Value
		for _, e := range x.Edges {
			out = append(out, a.unbox(e, depth+1)...)
		}
		return out
	}
	return []ssa.Value{v}
}

func (a *analysis) isSanitized(v ssa.Value) bool {
	switch x := v.(type) {
	case *ssa.Call:
		if f := x.Call.StaticCallee(); f != nil && f.Name() == "GetSafeOptions" && f.Pkg != nil && f.Pkg.Pkg.Path() == core.Module+"/redis-shake/configure" {
			return true
		}
	case *ssa.UnOp:
		// load of a local that only ever holds the sanitizer's result
		if al, ok := x.X.(*ssa.Alloc); ok && x.Op == token.MUL {
			okAll, n := true, 0
			for _, ref := range *al.Referrers() {
				if st, ok := ref.(*ssa.Store); ok && st.Addr == al {
					n++
					okAll = okAll && a.isSanitized(st.Val)
				}
			}
			return okAll && n > 0
		}
	}
	return false
}

func sinkKind(caller *ssa.Function, call *ssa.CallCommon) string {
	f := call.StaticCallee()
	if f == nil || f.Pkg == nil {
		if call.IsInvoke() && call.Method.Pkg() != nil && call.Method.Pkg().Path() == logPkg {
			return "log"
		}
		return ""
	}
	path := f.Pkg.Pkg.Path()
	switch {
	case path == logPkg:
		if caller.Pkg != nil && caller.Pkg.Pkg.Path() == logPkg {
			return ""
		}
		return "log"
	case path == "fmt":
		switch f.Name() {
		case "Print", "Printf", "Println":
			return "stdout"
		case "Fprint", "Fprintf", "Fprintln":
			if len(call.Args) > 0 {
				for _, w := range unboxIface(call.Args[0]) {
					if u, ok := w.(*ssa.UnOp); ok {
						if g, ok := u.X.(*ssa.Global); ok && g.Pkg.Pkg.Path() == "os" && (g.Name() == "Stdout" || g.Name() == "Stderr") {
							return "stdstream"
						}
					}
				}
			}
		}
	case path == "encoding/json":
		switch f.Name() {
		case "Marshal", "MarshalIndent":
			return "json"
		}
	case path == "log":
		return "log"
	}
	return ""
}

func unboxIface(v ssa.Value) []ssa.Value {
	switch x := v.(type) {
	case *ssa.MakeInterface:
		return unboxIface(x.X)
	case *ssa.ChangeInterface:
		return unboxIface(x.X)
	}
	return []ssa.Value{v}
}

func fnName(f *ssa.Function) string {
	s := f.String()
	return strings.ReplaceAll(s, core.Module+"/", "")
}

func (a *analysis) checkSinkArg(kind, where string, site token.Pos, arg ssa.Value, typeOnly bool, counter map[string]int) {
	counter[where]++
	key := fmt.Sprintf("%s/%s#%d", kind, where, counter[where])
	// R2 value taint
	if !typeOnly {
		vals := append([]ssa.Value{arg}, a.unbox(arg, 0)...)
		why := ""
		for _, v := range vals {
			if w, ok := a.is(v); ok {
				why = w
				break
			}
		}
		a.c.Check("R2.taint", key, site, why == "",
			"a value derived from a configured password reaches a "+kind+" sink: the secret would be printed/served", "origin: "+why)
	}
	// R1 type reachability
	why := ""
	for _, v := range a.unbox(arg, 0) {
		if r := a.reaches(v.Type()); r != "" && !a.isSanitized(v) {
			why = fmt.Sprintf("%s reaches password field via %s", v.Type().String(), r)
			break
		}
	}
	a.c.Check("R1.type", key, site, why == "",
		"a value whose type contains a password field is handed to a "+kind+" sink unsanitised (%v/%+v/json print the field)", why)
}

func (a *analysis) sinks() {
	counter := map[string]int{}
	nLog := 0
	for _, fn := range a.fns {
		where := fnName(fn)
		for _, b := range fn.Blocks {
			for _, ins := range b.Instrs {
				ci, ok := ins.(ssa.CallInstruction)
				if !ok {
					continue
				}
				call := ci.Common()
				kind := sinkKind(fn, call)
				if kind != "" {
					if kind == "log" {
						nLog++
					}
					args := call.Args
					if kind == "stdstream" {
						args = args[1:]
					}
					if call.IsInvoke() {
						// receiver is the logger itself
					} else if f := call.StaticCallee(); f != nil && f.Signature.Recv() != nil && len(args) > 0 {
						args = args[1:] // skip *Logger receiver
					}
					for _, arg := range args {
						a.checkSinkArg(kind, where, ins.Pos(), arg, kind == "json", counter)
					}
				}
				// REST handlers: values returned by functions passed to RegisterAPI
				if f := call.StaticCallee(); f != nil && f.Name() == "RegisterAPI" || call.IsInvoke() && call.Method.Name() == "RegisterAPI" {
					for _, arg := range call.Args {
						var h *ssa.Function
						switch x := arg.(type) {
						case *ssa.MakeClosure:
							h, _ = x.Fn.(*ssa.Function)
						case *ssa.Function:
							h = x
						}
						if h == nil || h.Blocks == nil {
							continue
						}
						for _, hb := range h.Blocks {
							for _, hi := range hb.Instrs {
								if r, ok := hi.(*ssa.Return); ok {
									for _, rv := range r.Results {
										a.checkSinkArg("rest", fnName(h), r.Pos(), rv, false, counter)
									}
								}
							}
						}
					}
				}
			}
		}
	}
	a.c.Note("log sink call sites outside pkg/libs/log: %d", nLog)
	if nLog < 250 {
		a.c.Undecidedf("instances", "log-sinks", token.NoPos, "only %d log call sites found, 250+ confirmed on the pinned tree", nLog)
	}
}

// sanitizer checks R3 on the AST of configure.GetSafeOptions.
func (a *analysis) sanitizer() {
	c := a.c
	fn := c.Func("redis-shake/configure", "", "GetSafeOptions")
	if fn == nil {
		return
	}
	info := fn.Pkg.TypesInfo
	// the returned local
	var ret *ast.ReturnStmt
	for _, st := range fn.Decl.Body.List {
		if r, ok := st.(*ast.ReturnStmt); ok {
			ret = r
		}
	}
	var rid *ast.Ident
	ok := false
	if ret != nil && len(ret.Results) == 0 && fn.Decl.Type.Results != nil && len(fn.Decl.Type.Results.List) == 1 && len(fn.Decl.Type.Results.List[0].Names) == 1 {
		// a named result and a bare return: the result variable is what is returned
		rid, ok = fn.Decl.Type.Results.List[0].Names[0], true
	}
	if !ok && (ret == nil || len(ret.Results) != 1) {
		c.Undecidedf("R3.sanitizer", "GetSafeOptions/shape", fn.Decl.Pos(), "GetSafeOptions does not end in a single-value return")
		return
	}
	if !ok {
		rid, ok = ast.Unparen(ret.Results[0]).(*ast.Ident)
	}
	if !ok {
		c.Undecidedf("R3.sanitizer", "GetSafeOptions/shape", ret.Pos(), "GetSafeOptions returns an expression, not a local copy")
		return
	}
	local := info.Uses[rid]
	if local == nil {
		local = info.Defs[rid]
	}
	if _, isGlobal := local.(*types.Var); !isGlobal || local.Parent() == local.Pkg().Scope() {
		c.Failf("R3.sanitizer", "GetSafeOptions/returns-copy", ret.Pos(), "GetSafeOptions returns the live configuration object: nothing is masked")
		return
	}
	masked := map[string]bool{}
	maskedWitness := map[string][]string{}
	escapes := false
	if st0, ok := local.Type().Underlying().(*types.Struct); ok {
		var names []string
		for i := 0; i < st0.NumFields(); i++ {
			if _, isSrc := a.sources[st0.Field(i)]; isSrc {
				names = append(names, st0.Field(i).Name())
			}
		}
		isLocal := func(e ast.Expr) bool {
			id, ok := ast.Unparen(e).(*ast.Ident)
			return ok && info.Uses[id] == local
		}
		for _, name := range names {
			ok, w, esc := a.masks(fn, isLocal, name, 0)
			masked[name], maskedWitness[name] = ok, w
			escapes = escapes || esc
		}
	}
	// every source field of the returned type
	st, _ := local.Type().Underlying().(*types.Struct)
	if st == nil {
		c.Undecidedf("R3.sanitizer", "GetSafeOptions/type", fn.Decl.Pos(), "returned value is not a struct")
		return
	}
	n := 0
	for i := 0; i < st.NumFields(); i++ {
		f := st.Field(i)
		if _, isSrc := a.sources[f]; !isSrc {
			continue
		}
		n++
		if !masked[f.Name()] && escapes {
			c.Undecidedf("R3.sanitizer", "GetSafeOptions/"+f.Name(), fn.Decl.Pos(), "the copy is handed by address to code that is not recognised as overwriting %s with a constant", f.Name())
			continue
		}
		c.Check("R3.sanitizer", "GetSafeOptions/"+f.Name(), fn.Decl.Pos(), masked[f.Name()],
			fmt.Sprintf("GetSafeOptions must overwrite %s with a constant on every path on which it is non-empty, on the copy it returns; otherwise /conf and the start-up echo show the password", f.Name()), maskedWitness[f.Name()]...)
		// nested structs with passwords are not expected
	}
	for i := 0; i < st.NumFields(); i++ {
		f := st.Field(i)
		if _, isSrc := a.sources[f]; isSrc {
			continue
		}
		if r := a.reaches(f.Type()); r != "" {
			c.Failf("R3.sanitizer", "GetSafeOptions/nested/"+f.Name(), fn.Decl.Pos(), "field %s reaches password field %s which the sanitizer cannot mask by a top-level assignment", f.Name(), r)
		}
	}
	if n < 4 {
		c.Undecidedf("instances", "R3.sanitizer", fn.Decl.Pos(), "only %d password fields in Configuration, 4 confirmed", n)
	}
}

// mainAST: package main is ill-typed on the pinned tree, so it has no SSA;
// its sink calls are checked on the AST with the partial type information.
func (a *analysis) mainAST() {
	c := a.c
	pk := c.All[core.MainPkg]
	if pk == nil {
		c.Note("package main not loaded")
		return
	}
	srcNames := map[string]bool{}
	for f := range a.sources {
		srcNames[f.Name()] = true
	}
	isOptions := func(e ast.Expr) bool {
		sel, ok := ast.Unparen(e).(*ast.SelectorExpr)
		if !ok || sel.Sel.Name != "Options" {
			return false
		}
		id, ok := sel.X.(*ast.Ident)
		if !ok {
			return false
		}
		if pn, ok := pk.TypesInfo.Uses[id].(*types.PkgName); ok {
			return pn.Imported().Path() == core.Module+"/redis-shake/configure"
		}
		return id.Name == "conf"
	}
	// does expression e expose the configuration object or a password field?
	var exposes func(e ast.Node) string
	exposes = func(e ast.Node) string {
		res := ""
		var parentSel = map[ast.Expr]bool{}
		ast.Inspect(e, func(n ast.Node) bool {
			if res != "" {
				return false
			}
			if call, ok := n.(*ast.CallExpr); ok {
				// results of the sanitizer are fine; its arguments are none
				if sel, ok := call.Fun.(*ast.SelectorExpr); ok && sel.Sel.Name == "GetSafeOptions" {
					return false
				}
			}
			if sel, ok := n.(*ast.SelectorExpr); ok {
				parentSel[sel.X] = true
				if srcNames[sel.Sel.Name] {
					res = "password field " + sel.Sel.Name
					return false
				}
				if isOptions(sel) && !parentSel[sel] {
					res = "the whole configuration object conf.Options"
					return false
				}
			}
			return true
		})
		return res
	}
	isSinkCall := func(call *ast.CallExpr) string {
		sel, ok := call.Fun.(*ast.SelectorExpr)
		if !ok {
			return ""
		}
		id, ok := sel.X.(*ast.Ident)
		if !ok {
			return ""
		}
		path := ""
		if pn, ok := pk.TypesInfo.Uses[id].(*types.PkgName); ok {
			path = pn.Imported().Path()
		}
		switch {
		case path == logPkg || path == "" && id.Name == "log":
			return "log"
		case (path == "fmt" || path == "" && id.Name == "fmt") && (strings.HasPrefix(sel.Sel.Name, "Print")):
			return "stdout"
		case (path == "encoding/json" || path == "" && id.Name == "json") && strings.HasPrefix(sel.Sel.Name, "Marshal"):
			return "json"
		}
		return ""
	}
	n := 0
	cnt := map[string]int{}
	for _, f := range pk.Syntax {
		for _, d := range f.Decls {
			fd, ok := d.(*ast.FuncDecl)
			if !ok || fd.Body == nil {
				continue
			}
			ast.Inspect(fd.Body, func(m ast.Node) bool {
				call, ok := m.(*ast.CallExpr)
				if !ok {
					return true
				}
				if kind := isSinkCall(call); kind != "" {
					for _, arg := range call.Args {
						n++
						cnt[fd.Name.Name]++
						w := exposes(arg)
						c.Check("R4.main", fmt.Sprintf("%s/main.%s#%d", kind, fd.Name.Name, cnt[fd.Name.Name]), arg.Pos(), w == "",
							"a "+kind+" sink in package main is given "+w+": the start-up echo / logs would show the password")
					}
				}
				if sel, ok := call.Fun.(*ast.SelectorExpr); ok && sel.Sel.Name == "RegisterAPI" {
					for _, arg := range call.Args {
						fl, ok := arg.(*ast.FuncLit)
						if !ok {
							continue
						}
						ast.Inspect(fl.Body, func(r ast.Node) bool {
							if ret, ok := r.(*ast.ReturnStmt); ok {
								for _, rv := range ret.Results {
									n++
									cnt[fd.Name.Name]++
									w := exposes(rv)
									c.Check("R4.main", fmt.Sprintf("rest/main.%s#%d", fd.Name.Name, cnt[fd.Name.Name]), rv.Pos(), w == "",
										"a REST handler in package main returns "+w+": the document served would show the password")
								}
							}
							return true
						})
					}
				}
				return true
			})
		}
	}
	c.Note("package main (AST only, %d type errors): %d sink arguments examined", c.MainTypeErrors, n)
}

// masks reports whether every normal path of fn overwrites field `name` of the
// object denoted by isBase with a string constant (or leaves through an edge on
// which the field is known to be empty). The overwrite may be a direct
// assignment, happen in a same-package helper that receives the object (by
// address or as a pointer), or be the idiom `for _, p := range []*string{&x.A,
// &x.B} { *p = "const" }`. esc tells that the object is handed to code that
// could not be analysed.
func (a *analysis) masks(fn *core.Fn, isBase func(ast.Expr) bool, name string, depth int) (ok bool, witness []string, esc bool) {
	c := a.c
	info := fn.Pkg.TypesInfo
	g := cfgq.Of(c.Program, fn)
	isField := func(e ast.Expr) bool {
		sel, ok := ast.Unparen(e).(*ast.SelectorExpr)
		return ok && sel.Sel.Name == name && isBase(sel.X)
	}
	// the pointer-table idiom, as unconditional top-level statements: a literal
	// table of field addresses (ranged over directly or held in a local assigned
	// once) whose every element is overwritten with a constant in a loop
	tableOf := func(x ast.Expr) *ast.CompositeLit {
		x = ast.Unparen(x)
		if id, ok := x.(*ast.Ident); ok {
			if d := pat.DefOf(info, id); d != nil {
				x = ast.Unparen(d)
			}
		}
		lit, _ := x.(*ast.CompositeLit)
		return lit
	}
	lists := func(lit *ast.CompositeLit) bool {
		for _, el := range lit.Elts {
			if kv, ok := el.(*ast.KeyValueExpr); ok {
				el = kv.Value
			}
			if u, isAddr := ast.Unparen(el).(*ast.UnaryExpr); isAddr && u.Op == token.AND && isField(u.X) {
				return true
			}
		}
		return false
	}
	constStore := func(st ast.Stmt, elem func(ast.Expr) bool) bool {
		as, isAs := st.(*ast.AssignStmt)
		if !isAs || len(as.Lhs) != 1 || len(as.Rhs) != 1 {
			return false
		}
		star, isStar := ast.Unparen(as.Lhs[0]).(*ast.StarExpr)
		if !isStar || !elem(star.X) {
			return false
		}
		_, isConst := core.StringConst(info, as.Rhs[0])
		return isConst
	}
	for _, st := range fn.Decl.Body.List {
		switch loop := st.(type) {
		case *ast.RangeStmt:
			lit := tableOf(loop.X)
			if lit == nil || !lists(lit) || len(loop.Body.List) == 0 {
				continue
			}
			elem := func(x ast.Expr) bool {
				x = ast.Unparen(x)
				if loop.Value != nil && pat.Same(info, x, loop.Value) {
					return true
				}
				if ix, ok := x.(*ast.IndexExpr); ok && loop.Key != nil {
					return pat.Same(info, ix.X, loop.X) && pat.Same(info, ix.Index, loop.Key)
				}
				return false
			}
			if constStore(loop.Body.List[0], elem) {
				return true, nil, false
			}
		case *ast.ForStmt:
			// for i := 0; i < len(T); i++ { *T[i] = const }
			cond, ok := ast.Unparen(loop.Cond).(*ast.BinaryExpr)
			if !ok || cond.Op != token.LSS || len(loop.Body.List) == 0 {
				continue
			}
			b := pat.Expr("len(_t)").Match(info, cond.Y, nil)
			init, isInit := loop.Init.(*ast.AssignStmt)
			if b == nil || !isInit || len(init.Rhs) != 1 {
				continue
			}
			if v, isC := core.IntConst(info, init.Rhs[0]); !isC || v != 0 {
				continue
			}
			lit := tableOf(b["_t"].(ast.Expr))
			if lit == nil || !lists(lit) {
				continue
			}
			elem := func(x ast.Expr) bool {
				ix, ok := ast.Unparen(x).(*ast.IndexExpr)
				return ok && pat.Same(info, ix.X, b["_t"]) && pat.Same(info, ix.Index, cond.X)
			}
			if constStore(loop.Body.List[0], elem) {
				return true, nil, false
			}
		}
	}
	maskNode := func(n ast.Node) bool {
		if as, ok := n.(*ast.AssignStmt); ok && len(as.Lhs) == len(as.Rhs) {
			for i, l := range as.Lhs {
				if isField(l) {
					if _, isConst := core.StringConst(info, as.Rhs[i]); isConst {
						return true
					}
				}
			}
		}
		for _, call := range cfgq.ExecCalls(n) {
			f := core.CalleeFunc(info, call)
			if f == nil {
				continue
			}
			for i, arg := range call.Args {
				x := ast.Unparen(arg)
				if u, isAddr := x.(*ast.UnaryExpr); isAddr && u.Op == token.AND {
					x = ast.Unparen(u.X)
				} else if _, isPtr := info.TypeOf(x).(*types.Pointer); !isPtr {
					continue
				}
				if !isBase(x) {
					continue
				}
				h := c.FnOf(f)
				if h == nil || h.Decl.Body == nil || depth >= 2 || f.Pkg() != fn.Obj.Pkg() {
					esc = true
					continue
				}
				var pobj types.Object
				k := 0
				for _, fl := range h.Decl.Type.Params.List {
					for _, nm := range fl.Names {
						if k == i {
							pobj = h.Pkg.TypesInfo.Defs[nm]
						}
						k++
					}
				}
				if pobj == nil {
					esc = true
					continue
				}
				hi := h.Pkg.TypesInfo
				okH, _, escH := a.masks(h, func(e ast.Expr) bool {
					id, ok := ast.Unparen(e).(*ast.Ident)
					return ok && hi.Uses[id] == pobj
				}, name, depth+1)
				if okH {
					return true
				}
				if !okH {
					esc = esc || escH || true
				}
			}
		}
		return false
	}
	empty := func(b *cfg.Block, s int) bool {
		return g.Establishes(b, s, func(ft cfgq.Fact) bool {
			be, ok := ast.Unparen(ft.Expr).(*ast.BinaryExpr)
			if !ok {
				return false
			}
			for _, p := range [][2]ast.Expr{{be.X, be.Y}, {be.Y, be.X}} {
				if !isField(p[0]) {
					continue
				}
				if sv, ok := core.StringConst(info, p[1]); ok && sv == "" {
					return be.Op == token.EQL && ft.Val || be.Op == token.NEQ && !ft.Val
				}
			}
			return false
		})
	}
	w := g.Path(cfgq.Query{From: g.Entry(), Avoid: maskNode, AvoidEdge: empty, TargetExit: cfgq.NormalExit})
	return w == nil, w, esc
}
