package c08

import (
	"fmt"
	"go/ast"
	"go/token"
	"go/types"

	"rscheck/core"
	"rscheck/rules/c03"
)

// ---------------------------------------------------------------------------
// R6 stamp base
//
// Every command that parseSourceCommand queues carries the replication offset
// the checkpoint of its batch will store. "The offsets stored in checkpoints
// are those same exact stream positions" needs, for every queued cmdDetail
// literal, that the Offset is built from DbSyncer.sourceOffset (the position
// the stream was resumed at / announced by the source) and nothing else but the
// decoder position of this iteration's MustDecodeOpt. The exact arithmetic
// (base alone before the loop, base + position inside it) is C04's
// R2.offset/stamp; this rule decides the provenance of the base: a summand that
// reads ANOTHER struct field is a violation when no write of that field
// anywhere in the module takes its value from DbSyncer.sourceOffset (the field
// then holds an unrelated number, e.g. the statistics copy of the source's
// master_repl_offset that fetchOffset polls for display).

func stampBase(c *core.Ctx) {
	const rule = "R6.stamp"
	fn := c.LookupFunc(c03.DbSync, c03.Syncer, "parseSourceCommand")
	pos := token.NoPos
	if fn != nil && fn.Decl != nil {
		pos = fn.Decl.Pos()
	}
	// the model reports its own obligations; they are C03/C04's, not this property's
	sub := core.NewCtx(c.Program, c.Prop, c.Tier)
	p := c03.AnalyseParser(sub)
	if p == nil || len(p.Sends) == 0 {
		c.Undecidedf(rule, "parser", pos, "parseSourceCommand's decode loop / enqueue sites are not recognised: the Offset of the queued commands cannot be traced")
		return
	}
	info := p.Info
	isInc := c03.SameVar(info, p.Fn.Decl, p.Inc)
	idx := map[string]int{}
	for _, q := range p.Sends {
		idx[q.Name]++
		key := fmt.Sprintf("%s#%d/base", q.Name, idx[q.Name])
		off := q.Field["Offset"]
		if off == nil {
			c.Failf(rule, key, q.Pos(), "the queued command carries no Offset: its batch stores offset 0 as the checkpoint, not a position of the replication stream")
			continue
		}
		var use ast.Node
		for _, pn := range core.PathTo(p.Fn.Decl.Body, off) {
			if st, ok := pn.(ast.Stmt); ok {
				if _, found := p.G.Find(st); found {
					use = st
				}
			}
		}
		nBase, nInc := 0, 0
		var foreign []ast.Expr // summands that read another struct field
		var other []ast.Expr
		for _, t := range c03.SumTerms(info, p.G, p.Fn.Decl, off, use) {
			if v, ok := core.IntConst(info, t); ok && v == 0 {
				continue
			}
			t = stripConv(info, t)
			if _, isID := t.(*ast.Ident); isID {
				if o, ok := c03.SoleOrigin(info, p.Fn.Decl, t); ok && o.Expr != nil && o.Op == 0 && !o.Range && o.Res < 0 && !o.Param {
					if _, again := ast.Unparen(o.Expr).(*ast.Ident); !again {
						t = stripConv(info, o.Expr) // `base := ds.sourceOffset`
					}
				}
			}
			switch {
			case c03.IsSourceOffset(info, t):
				nBase++
			case isInc(t):
				nInc++
			case fieldRead(info, t) != nil:
				foreign = append(foreign, t)
			default:
				other = append(other, t)
			}
		}
		var wrong ast.Expr
		var wrongF *types.Var
		maybe := ""
		for _, t := range foreign {
			f := fieldRead(info, t)
			derived, why := mayHoldBase(c, info, t, f)
			if !derived {
				wrong, wrongF = t, f
				break
			}
			maybe = fmt.Sprintf("`%s` (%s)", c.Src(t), why)
		}
		switch {
		case wrong != nil:
			c.Failf(rule, key, q.Pos(), "the queued command is stamped with `%s`: the summand `%s` reads field %s, not DbSyncer.sourceOffset, and no write of that field in the module takes its value from DbSyncer.sourceOffset. The Offset of a command is what its batch stores as the checkpoint, so when this command is the last of a batch the checkpoint (and lastCommittedOffset) is a number unrelated to the stream position (0 until that field is first set); a restart then issues PSYNC with that number instead of the position where the stream stopped",
				c.Src(off), c.Src(wrong), fieldLabel(wrongF))
		case maybe != "":
			c.Undecidedf(rule, key, q.Pos(), "Offset `%s` reads %s instead of DbSyncer.sourceOffset; the rule cannot tell whether that field holds the replication base", c.Src(off), maybe)
		case len(other) > 0:
			c.Undecidedf(rule, key, q.Pos(), "Offset `%s` has a summand `%s` that is neither DbSyncer.sourceOffset nor the decoder position", c.Src(off), c.Src(other[0]))
		case nBase == 0:
			c.Failf(rule, key, q.Pos(), "Offset `%s` does not contain DbSyncer.sourceOffset: the stored checkpoint is not a position of the source's replication stream", c.Src(off))
		default:
			c.Okf(rule, key, q.Pos(), "the Offset is built from DbSyncer.sourceOffset%s", map[bool]string{true: " and this iteration's decoder position", false: ""}[nInc > 0])
		}
	}
}

// fieldRead: e reads a struct field (x.f), or calls a niladic method on one (x.f.Get()); returns the field.
func fieldRead(info *types.Info, e ast.Expr) *types.Var {
	e = ast.Unparen(e)
	if call, ok := e.(*ast.CallExpr); ok && len(call.Args) == 0 {
		if sel, ok := ast.Unparen(call.Fun).(*ast.SelectorExpr); ok {
			if s, ok := info.Selections[sel]; ok && s.Kind() == types.MethodVal {
				return core.FieldOf(info, sel.X)
			}
		}
		return nil
	}
	return core.FieldOf(info, e)
}

func fieldLabel(f *types.Var) string {
	if f == nil {
		return "?"
	}
	return f.Name() + " (declared " + f.Type().String() + ")"
}

// ownerName returns the name of the named struct type whose field the selector x.f selects.
func ownerName(info *types.Info, e ast.Expr) string {
	e = ast.Unparen(e)
	if call, ok := e.(*ast.CallExpr); ok {
		if sel, ok := ast.Unparen(call.Fun).(*ast.SelectorExpr); ok {
			e = ast.Unparen(sel.X)
		}
	}
	sel, ok := e.(*ast.SelectorExpr)
	if !ok {
		return ""
	}
	if s, ok := info.Selections[sel]; ok {
		return core.NamedTypeName(s.Recv())
	}
	return ""
}

// mayHoldBase: some write of field f (read by expression at) may store a value
// taken from DbSyncer.sourceOffset, or the rule cannot see all writes.
// derived == false means: every write of f is visible and none of them is fed,
// directly or through locals of the writing function, by DbSyncer.sourceOffset.
func mayHoldBase(c *core.Ctx, info *types.Info, at ast.Expr, f *types.Var) (derived bool, why string) {
	owner := ownerName(info, at)
	if f == nil || owner == "" || f.Pkg() == nil {
		return true, "its owner type is not a named struct of the module"
	}
	// values: does expression e, evaluated in body b, take anything from DbSyncer.sourceOffset?
	var fed func(b c03.MBody, e ast.Expr, depth int, seen map[types.Object]bool) (bool, string)
	fed = func(b c03.MBody, e ast.Expr, depth int, seen map[types.Object]bool) (bool, string) {
		bi := b.Pkg.TypesInfo
		if mentionsBase(bi, e) {
			return true, "assigned from DbSyncer.sourceOffset"
		}
		hit, reason := false, ""
		ast.Inspect(e, func(n ast.Node) bool {
			if hit {
				return false
			}
			if _, isLit := n.(*ast.FuncLit); isLit {
				hit, reason = true, "assigned a value computed by a closure"
				return false
			}
			id, ok := n.(*ast.Ident)
			if !ok {
				return true
			}
			v, _ := bi.Uses[id].(*types.Var)
			if v == nil || v.IsField() || seen[v] {
				return true
			}
			if v.Parent() == v.Pkg().Scope() {
				return true // a package-level variable: not the syncer's offset
			}
			seen[v] = true
			if recv := b.Decl.Recv; recv != nil && len(recv.List) == 1 && len(recv.List[0].Names) == 1 && bi.Defs[recv.List[0].Names[0]] == types.Object(v) {
				return true // the receiver: its fields are looked at where they are selected
			}
			if depth == 0 {
				hit, reason = true, "assigned through a chain of locals the rule does not follow to the end"
				return false
			}
			for _, o := range c03.Origins(bi, b.Decl, id) {
				switch {
				case o.Zero:
				case o.Param:
					hit, reason = true, "assigned from a parameter of "+b.Name
				case o.Expr == nil:
					// ++ / --
				default:
					if h, r := fed(b, o.Expr, depth-1, seen); h {
						hit, reason = true, r
					}
				}
			}
			return true
		})
		return hit, reason
	}
	nw := 0
	for _, w := range c03.FieldWrites(c, owner, f.Name()) {
		nw++
		switch {
		case w.Tok == token.AND:
			return true, "its address is taken"
		case w.Rhs == nil:
			// ++ / --
		default:
			if h, r := fed(w.In, w.Rhs, 3, map[types.Object]bool{}); h {
				return true, r
			}
		}
	}
	// composite literals of the owner type that set the field; methods called on the field with arguments
	for _, b := range c03.AllBodies(c) {
		b := b
		bi := b.Pkg.TypesInfo
		res, reason := false, ""
		core.Inspect(b.Root(), func(n ast.Node) bool {
			if res {
				return false
			}
			switch x := n.(type) {
			case *ast.CompositeLit:
				st, ok := derefType(bi.TypeOf(x)).Underlying().(*types.Struct)
				if !ok {
					return true
				}
				for i, el := range x.Elts {
					var val ast.Expr
					if kv, ok := el.(*ast.KeyValueExpr); ok {
						if kid, ok := kv.Key.(*ast.Ident); ok && bi.Uses[kid] == types.Object(f) {
							val = kv.Value
						}
					} else if i < st.NumFields() && st.Field(i) == f {
						val = el
					}
					if val != nil {
						nw++
						if h, r := fed(b, val, 3, map[types.Object]bool{}); h {
							res, reason = true, r
						}
					}
				}
			case *ast.CallExpr:
				if len(x.Args) == 0 {
					return true
				}
				sel, ok := ast.Unparen(x.Fun).(*ast.SelectorExpr)
				if !ok {
					return true
				}
				if s, ok := bi.Selections[sel]; !ok || s.Kind() != types.MethodVal || core.FieldOf(bi, sel.X) != f {
					return true
				}
				nw++
				for _, a := range x.Args {
					if h, r := fed(b, a, 3, map[types.Object]bool{}); h {
						res, reason = true, r
					}
				}
			}
			return true
		})
		if res {
			return true, reason
		}
	}
	return false, ""
}

// mentionsBase: e contains a selector that denotes DbSyncer.sourceOffset itself.
func mentionsBase(info *types.Info, e ast.Expr) bool {
	found := false
	ast.Inspect(e, func(n ast.Node) bool {
		if x, ok := n.(ast.Expr); ok && c03.IsSourceOffset(info, x) {
			found = true
		}
		return !found
	})
	return found
}
