package c08

import (
	"fmt"
	"go/ast"
	"go/token"
	"go/types"
	"sort"
	"strings"

	"rscheck/cfgq"
	"rscheck/core"
	"rscheck/rules/c03"
)

// ---------------------------------------------------------------------------
// R5 reader continuity
//
// SendPSyncContinue parses the PSYNC reply line through a *bufio.Reader. A
// buffered reader may have pulled more than the reply line out of the socket:
// whatever the source wrote right behind "+CONTINUE\r\n" sits in that reader's
// buffer. The stream therefore continues "at the exact byte where it stopped",
// and the byte count that is acknowledged stays "bytes received", only if the
// copy loop (pSyncPipeCopy) goes on reading through that very reader.
//
// The rule resolves every reader expression to the buffered-reader creations
// (bufio.NewReader / bufio.NewReaderSize calls) it may denote, through locals,
// parameters (to the arguments of all call sites) and results of module
// functions (to their returned expressions), and states:
//
//   - handshake/.../reaches-copy: every reader creation that feeds a PSYNC
//     handshake also feeds a copy loop;
//   - copy/.../read-handshake: every reader creation that feeds a copy loop
//     also feeds a PSYNC handshake.
//
// A variable is resolved to the definitions that reach the use on some path of
// the function's control-flow graph (the parameter's arguments only where the
// entry reaches the use without an assignment), so `br = NewReader(c)` after
// the handshake is a different reader than the one before it.

// readerSet is what a reader expression may denote.
type readerSet struct {
	fresh   map[*ast.CallExpr]bool // bufio.NewReader* calls
	unknown []string               // anything the resolver does not follow
}

func newReaderSet() *readerSet { return &readerSet{fresh: map[*ast.CallExpr]bool{}} }

func (s *readerSet) add(o *readerSet) {
	for k := range o.fresh {
		s.fresh[k] = true
	}
	s.unknown = append(s.unknown, o.unknown...)
}

// isReaderCtor: call creates a buffered reader (package bufio, result *bufio.Reader, not a method).
func isReaderCtor(info *types.Info, call *ast.CallExpr) bool {
	f := core.CalleeFunc(info, call)
	if f == nil || f.Pkg() == nil || f.Pkg().Path() != "bufio" {
		return false
	}
	sig, ok := f.Type().(*types.Signature)
	if !ok || sig.Recv() != nil || sig.Results().Len() != 1 {
		return false
	}
	return isBufioReader(sig.Results().At(0).Type())
}

func isBufioReader(t types.Type) bool {
	p, ok := t.(*types.Pointer)
	return ok && core.NamedTypePath(p.Elem()) == "bufio.Reader"
}

// readerParam returns the index of the only *bufio.Reader parameter of fn (-1: none or several).
func readerParam(fn *types.Func) int {
	sig, ok := fn.Type().(*types.Signature)
	if !ok {
		return -1
	}
	idx := -1
	for i := 0; i < sig.Params().Len(); i++ {
		if isBufioReader(sig.Params().At(i).Type()) {
			if idx >= 0 {
				return -1
			}
			idx = i
		}
	}
	return idx
}

type readerResolver struct {
	c      *core.Ctx
	active map[string]bool
	graphs map[ast.Node]*cfgq.Graph
}

// graph returns the control-flow graph of body b (nil when there is none).
func (r *readerResolver) graph(b c03.MBody) *cfgq.Graph {
	root := b.Root()
	if g, ok := r.graphs[root]; ok {
		return g
	}
	var g *cfgq.Graph
	if b.Lit != nil {
		g = cfgq.OfLit(r.c.Program, b.Pkg.TypesInfo, b.Lit)
	} else if fn := r.c.FnOf(b.Obj()); fn != nil && fn.Decl == b.Decl {
		g = cfgq.Of(r.c.Program, fn)
	}
	r.graphs[root] = g
	return g
}

// reachSet answers which definitions of a variable reach one use of it.
type reachSet struct {
	g    *cfgq.Graph
	use  ast.Node // the cfg node that evaluates the use (nil: not located, every definition counts)
	isV  func(ast.Node) bool
	info *types.Info
}

// reaching prepares the reaching-definition queries for the use x of variable v in body b.
func (r *readerResolver) reaching(b c03.MBody, x *ast.Ident, v *types.Var) *reachSet {
	info := b.Pkg.TypesInfo
	rs := &reachSet{info: info}
	g := r.graph(b)
	if g == nil {
		return rs
	}
	pt, ok := g.Find(x)
	if !ok || pt.Node() == nil {
		return rs
	}
	rs.g, rs.use = g, pt.Node()
	rs.isV = func(n ast.Node) bool {
		switch s := n.(type) {
		case *ast.AssignStmt:
			for _, l := range s.Lhs {
				if lid, ok := ast.Unparen(l).(*ast.Ident); ok && core.ObjOf(info, lid) == types.Object(v) {
					return true
				}
			}
		case *ast.DeclStmt:
			found := false
			ast.Inspect(s, func(m ast.Node) bool {
				if vs, ok := m.(*ast.ValueSpec); ok {
					for _, nm := range vs.Names {
						if info.Defs[nm] == types.Object(v) {
							found = true
						}
					}
				}
				return !found
			})
			return found
		}
		return false
	}
	return rs
}

// def: the definition made by statement st reaches the use on some path.
func (rs *reachSet) def(st ast.Node) bool {
	if rs.g == nil {
		return true
	}
	dp, ok := rs.g.Find(st)
	if !ok || dp.Node() == nil {
		return true // defined outside this graph (an enclosing function): not ordered against the use
	}
	use := rs.use
	return rs.g.Path(cfgq.Query{From: dp, After: true, Avoid: rs.isV, Target: func(n ast.Node) bool { return n == use }}) != nil
}

// entry: the value the variable has on entry reaches the use on some path.
func (rs *reachSet) entry() bool {
	if rs.g == nil {
		return true
	}
	use := rs.use
	return rs.g.Path(cfgq.Query{Avoid: rs.isV, Target: func(n ast.Node) bool { return n == use }}) != nil
}

func (r *readerResolver) key(b c03.MBody, n ast.Node, idx int) string {
	return fmt.Sprintf("%p/%d/%d/%d", b.Decl, n.Pos(), n.End(), idx)
}

// expr resolves reader expression e, evaluated in body b.
func (r *readerResolver) expr(b c03.MBody, e ast.Expr, depth int) *readerSet {
	out := newReaderSet()
	info := b.Pkg.TypesInfo
	e = stripConv(info, e)
	if depth == 0 {
		out.unknown = append(out.unknown, r.c.Src(e))
		return out
	}
	k := r.key(b, e, -1)
	if r.active[k] {
		return out // a cycle adds nothing
	}
	r.active[k] = true
	defer delete(r.active, k)
	switch x := e.(type) {
	case *ast.CallExpr:
		out.add(r.call(b, x, 0, depth))
	case *ast.Ident:
		v, _ := core.ObjOf(info, x).(*types.Var)
		if v == nil || v.IsField() {
			out.unknown = append(out.unknown, r.c.Src(e))
			return out
		}
		pidx := paramIndex(info, b.Decl, v)
		if pidx < 0 && isLitParam(info, b.Decl, v) {
			// a parameter of a function literal: its arguments are not followed
			out.unknown = append(out.unknown, r.c.Src(x))
			return out
		}
		reach := r.reaching(b, x, v)
		for _, o := range c03.Origins1(info, b.Decl, x) {
			if o.Stmt != nil && !reach.def(o.Stmt) {
				continue // this definition is overwritten on every path to the use
			}
			switch {
			case o.Zero:
				// the nil reader: not a reader
			case o.Param:
				// no definition in the function: a parameter (its arguments are added below),
				// or a variable from outside (package level)
				if pidx < 0 {
					out.unknown = append(out.unknown, r.c.Src(x))
				}
			case o.Expr == nil || o.Op != 0 || o.Range:
				out.unknown = append(out.unknown, r.c.Src(x))
			case o.Res >= 0:
				call, ok := ast.Unparen(o.Expr).(*ast.CallExpr)
				if !ok {
					out.unknown = append(out.unknown, r.c.Src(o.Expr))
					continue
				}
				out.add(r.call(b, call, o.Res, depth-1))
			default:
				out.add(r.expr(b, o.Expr, depth-1))
			}
		}
		if pidx >= 0 && reach.entry() {
			// a parameter whose initial value reaches the use: the arguments of every call site
			declObj, _ := info.Defs[b.Decl.Name].(*types.Func)
			sites := c03.CallsTo(r.c, declObj)
			if declObj == nil || len(sites) == 0 {
				out.unknown = append(out.unknown, r.c.Src(x))
			}
			for _, cs := range sites {
				if pidx >= len(cs.Call.Args) || cs.Call.Ellipsis.IsValid() {
					out.unknown = append(out.unknown, r.c.Src(cs.Call))
					continue
				}
				out.add(r.expr(cs.In, cs.Call.Args[pidx], depth-1))
			}
		}
	default:
		out.unknown = append(out.unknown, r.c.Src(e))
	}
	return out
}

// isLitParam: v is a parameter of a function literal inside fd.
func isLitParam(info *types.Info, fd *ast.FuncDecl, v *types.Var) bool {
	found := false
	ast.Inspect(fd, func(n ast.Node) bool {
		if lit, ok := n.(*ast.FuncLit); ok && litParamIndex(info, lit, v) >= 0 {
			found = true
		}
		return !found
	})
	return found
}

// call resolves result #res of call (evaluated in body b).
func (r *readerResolver) call(b c03.MBody, call *ast.CallExpr, res int, depth int) *readerSet {
	out := newReaderSet()
	info := b.Pkg.TypesInfo
	if isReaderCtor(info, call) {
		out.fresh[call] = true
		return out
	}
	fn := r.c.FnOf(core.CalleeFunc(info, call))
	if depth == 0 || fn == nil || fn.Decl == nil || fn.Decl.Body == nil || !strings.HasPrefix(fn.Pkg.PkgPath, core.Module) {
		out.unknown = append(out.unknown, r.c.Src(call))
		return out
	}
	fb, ok := declBody(r.c, fn.Decl)
	if !ok {
		out.unknown = append(out.unknown, r.c.Src(call))
		return out
	}
	k := r.key(fb, fn.Decl, res)
	if r.active[k] {
		return out
	}
	r.active[k] = true
	defer delete(r.active, k)
	nres := fn.Obj.Type().(*types.Signature).Results().Len()
	var named []*ast.Ident
	if fn.Decl.Type.Results != nil {
		for _, f := range fn.Decl.Type.Results.List {
			named = append(named, f.Names...)
		}
	}
	nret := 0
	core.Inspect(fn.Decl.Body, func(m ast.Node) bool {
		ret, isRet := m.(*ast.ReturnStmt)
		if !isRet {
			return true
		}
		nret++
		switch {
		case len(ret.Results) == nres && res < nres:
			out.add(r.expr(fb, ret.Results[res], depth-1))
		case len(ret.Results) == 0 && res < len(named):
			out.add(r.expr(fb, named[res], depth-1))
		case len(ret.Results) == 1 && nres > 1:
			if inner, ok := ast.Unparen(ret.Results[0]).(*ast.CallExpr); ok {
				out.add(r.call(fb, inner, res, depth-1))
			} else {
				out.unknown = append(out.unknown, r.c.Src(ret))
			}
		default:
			out.unknown = append(out.unknown, r.c.Src(ret))
		}
		return true
	})
	if nret == 0 {
		out.unknown = append(out.unknown, r.c.Src(call))
	}
	return out
}

type readerSite struct {
	cs   c03.CallSite
	arg  ast.Expr
	set  *readerSet
	name string
}

func siteName(cs c03.CallSite) string {
	n := cs.In.Name
	if i := strings.Index(n, "$"); i >= 0 {
		n = n[:i]
	}
	return n
}

func readerSites(c *core.Ctx, r *readerResolver, fn *core.Fn, idx int, rule, what string) ([]*readerSite, bool) {
	var out []*readerSite
	ok := true
	for _, cs := range c03.CallsTo(c, fn.Obj) {
		if idx >= len(cs.Call.Args) || cs.Call.Ellipsis.IsValid() {
			c.Undecidedf(rule, what+"/"+siteName(cs), cs.Call.Pos(), "unexpected argument list `%s`", c.Src(cs.Call))
			ok = false
			continue
		}
		s := &readerSite{cs: cs, arg: cs.Call.Args[idx], name: siteName(cs)}
		s.set = r.expr(cs.In, s.arg, 6)
		out = append(out, s)
	}
	sort.SliceStable(out, func(i, j int) bool { return out[i].cs.Call.Pos() < out[j].cs.Call.Pos() })
	return out, ok
}

func readerContinuity(c *core.Ctx) {
	const rule = "R5.reader"
	ps := c.LookupFunc(c03.Common, "", "SendPSyncContinue")
	cp := c.LookupFunc(c03.DbSync, c03.Syncer, "pSyncPipeCopy")
	if ps == nil || cp == nil || ps.Decl == nil || cp.Decl == nil {
		c.Undecidedf(rule, "anchors", token.NoPos, "SendPSyncContinue / pSyncPipeCopy cannot be resolved")
		return
	}
	pi, ci := readerParam(ps.Obj), readerParam(cp.Obj)
	if pi < 0 || ci < 0 {
		c.Undecidedf(rule, "anchors", ps.Decl.Pos(), "SendPSyncContinue / pSyncPipeCopy do not take exactly one *bufio.Reader each")
		return
	}
	r := &readerResolver{c: c, active: map[string]bool{}, graphs: map[ast.Node]*cfgq.Graph{}}
	hs, ok1 := readerSites(c, r, ps, pi, rule, "handshake")
	cps, ok2 := readerSites(c, r, cp, ci, rule, "copy")
	if len(hs) == 0 || len(cps) == 0 {
		c.Undecidedf(rule, "sites", ps.Decl.Pos(), "%d PSYNC handshakes and %d copy-loop calls found: the rule needs both", len(hs), len(cps))
		return
	}
	all := func(sites []*readerSite) *readerSet {
		u := newReaderSet()
		for _, s := range sites {
			u.add(s.set)
		}
		return u
	}
	H, C := all(hs), all(cps)
	if !ok1 {
		H.unknown = append(H.unknown, "a handshake with an unexpected argument list")
	}
	if !ok2 {
		C.unknown = append(C.unknown, "a copy-loop call with an unexpected argument list")
	}
	where := func(n ast.Node) string {
		p := c.Fset.Position(n.Pos())
		f := p.Filename
		if i := strings.LastIndex(f, "/"); i >= 0 {
			f = f[i+1:]
		}
		return fmt.Sprintf("%s:%d", f, p.Line)
	}
	// subset: every creation in s.set is in other; reports under key
	subset := func(s *readerSite, key string, other *readerSet, okMsg, failFmt string) {
		var missing []*ast.CallExpr
		for k := range s.set.fresh {
			if !other.fresh[k] {
				missing = append(missing, k)
			}
		}
		sort.Slice(missing, func(i, j int) bool { return missing[i].Pos() < missing[j].Pos() })
		switch {
		case len(s.set.unknown) > 0:
			c.Undecidedf(rule, key, s.cs.Call.Pos(), "cannot resolve the reader `%s` to the buffered readers it denotes (`%s`)", c.Src(s.arg), s.set.unknown[0])
		case len(s.set.fresh) == 0:
			c.Undecidedf(rule, key, s.cs.Call.Pos(), "the reader `%s` denotes no buffered-reader creation the rule knows", c.Src(s.arg))
		case len(missing) == 0:
			c.Okf(rule, key, s.cs.Call.Pos(), okMsg)
		case len(other.unknown) > 0:
			c.Undecidedf(rule, key, s.cs.Call.Pos(), "the reader created by `%s` (%s) is not found on the other side, but a reader there cannot be resolved (`%s`)", c.Src(missing[0]), where(missing[0]), other.unknown[0])
		default:
			c.Failf(rule, key, s.cs.Call.Pos(), failFmt, c.Src(s.arg), c.Src(missing[0]), where(missing[0]))
		}
	}
	cnt := map[string]int{}
	for _, s := range hs {
		cnt["h/"+s.name]++
		base := fmt.Sprintf("handshake/%s#%d", s.name, cnt["h/"+s.name])
		subset(s, base+"/reaches-copy", C,
			"the reader that parses the PSYNC reply is a reader the copy loop reads from",
			"the PSYNC reply is parsed through `%s`, the buffered reader created by `%s` (%s), and no call of pSyncPipeCopy reads from that reader: what the source sent right behind the reply line (+CONTINUE is followed at once by the backlog) stays in that reader's buffer and never reaches the pipe / the command parser. The resumed stream does not continue at the exact byte where it stopped, and the dropped bytes are not counted, so every later REPLCONF ACK and the next PSYNC offset are short by that amount")
	}
	for _, s := range cps {
		cnt["c/"+s.name]++
		subset(s, fmt.Sprintf("copy/%s#%d/read-handshake", s.name, cnt["c/"+s.name]), H,
			"every reader the copy loop reads from is one that parsed a PSYNC reply",
			"the copy loop reads from `%s`, which may be the buffered reader created by `%s` (%s), but no PSYNC reply is parsed through that reader: the handshake used another buffer over the same socket, so the bytes it read ahead behind the reply line are lost to the copy loop (stream not continued at the exact byte; acknowledged offset short by the lost bytes)")
	}
}
