// Package c08 decides the structural clauses of property C08 (offsets
// reported to the source are exactly 'start offset + bytes consumed').
package c08

import (
	"fmt"
	"go/ast"
	"go/token"
	"go/types"
	"strings"

	"golang.org/x/tools/go/cfg"

	"rscheck/cfgq"
	"rscheck/core"
	"rscheck/driver"
	"rscheck/rules/c03"
)

var Def = driver.PropDef{
	ID: "C08",
	Explanation: "Arithmetic provenance and sharing discipline of the replication offset in redis-shake/dbSync and common: " +
		"R1 no double counting (a byte counter that is only ever added to must not be `+=`-ed into another variable inside a loop; applied to every atomic2.Int64 local of dbSync); " +
		"R2 ACK provenance (every SendPSyncAck argument is 0 before the full sync is done, or ds.sourceOffset [+ the copy counter]; the copy counter is advanced by exactly the n of the Read whose bytes were written, once per chunk, after the write); " +
		"R3 reconnect argument (SendPSyncContinue in the reconnect loop receives ds.sourceOffset itself and the caller's run id; the callee sends offset+1 unless -1 and returns the unincremented offset on CONTINUE); " +
		"R4 single writer (ds.sourceOffset is written only before the incremental goroutines start or by the goroutine that reads it); " +
		"R5 reader continuity (the buffered readers through which a PSYNC reply is parsed are exactly the buffered readers the copy loop pSyncPipeCopy reads from -- resolved through locals, parameters and results of module functions to the bufio.NewReader/NewReaderSize calls they denote, a variable standing for the definitions that reach the use on some path of the control-flow graph -- because what the source sends right behind +CONTINUE sits in the buffer of the reader that parsed the reply); " +
		"R6 stamp base (every cmdDetail queued by parseSourceCommand builds its Offset from DbSyncer.sourceOffset and this iteration's decoder position only; a summand that reads another struct field is a violation when no write of that field in the module is fed by DbSyncer.sourceOffset).",
	NotDecided: "the temporal statement over histories and reconnect points (monotonicity of ACKs, continuation at the exact byte after a reconnect): only the arithmetic provenance and the sharing discipline are decided.",
	Trusted:    []string{"go/parser, go/types, go/cfg (x/tools v0.29.0)", "bufio.Reader.Read returns the number of bytes placed in p", "atomic2.Int64 Add/Get semantics"},
	Run:        Run,
}

const atomicPkg = "pkg/libs/atomic2"

func Run(c *core.Ctx) {
	c03.SetProgram(c.Program)
	if c.Pkg(c03.DbSync) == nil {
		c.Undecidedf("anchor", c03.DbSync, token.NoPos, "package not loaded")
		return
	}
	r1(c)
	r2(c)
	gateReleased(c)
	// R3
	if c.Func(c03.DbSync, c03.Syncer, "runIncrementalSync") != nil {
		if n := c03.PSyncCalls(c, "R3.reconnect", "runIncrementalSync"); n == 0 {
			c.Undecidedf("R3.reconnect", "runIncrementalSync/call", token.NoPos, "runIncrementalSync does not call SendPSyncContinue")
		}
		reconnectInLoop(c)
	}
	c03.PSyncContinue(c, "R3.reconnect")
	// R4
	n := c03.ReportWriters(c, "R4.single-writer", "sourceOffset/",
		"Two goroutines then own the offset: the value used for REPLCONF ACK, for PSYNC after a reconnect and for stamping commands is whatever interleaving produced, not `start offset + bytes consumed`.")
	if n == 0 {
		c.Undecidedf("R4.single-writer", "sourceOffset", token.NoPos, "no writer of ds.sourceOffset found")
	}
	c03.Expect(c, "R1.double-count", 3)
	c03.Expect(c, "R2.ack", 7)
	c03.Expect(c, "R3.reconnect", 8)
	c03.Expect(c, "R4.single-writer", 3)
	// R5 / R6
	readerContinuity(c)
	c03.Expect(c, "R5.reader", 3)
	stampBase(c)
	c03.Expect(c, "R6.stamp", 3)
}

// gateReleased (R2): the ACK goroutine acknowledges 0 and leaves ds.sourceOffset
// alone until ds.WaitFull is closed. The gate must therefore be released on
// every path from a successful PSYNC into the incremental phase, whether the
// source answered FULLRESYNC or CONTINUE.
func gateReleased(c *core.Ctx) {
	const rule, key = "R2.ack", "full-sync-gate/released-before-incremental"
	sp := c03.NewSyncSpan(c)
	if sp == nil {
		return
	}
	isClose := func(i *types.Info, m ast.Node) bool {
		call, ok := m.(*ast.CallExpr)
		if !ok || len(call.Args) != 1 {
			return false
		}
		bi, ok := core.Callee(i, call).(*types.Builtin)
		return ok && bi.Name() == "close" && core.IsFieldNamed(i, call.Args[0], c03.Syncer, "WaitFull")
	}
	// is the gate used at all, and where is it released?
	gated, closes, closesInSync := false, 0, 0
	for _, b := range c03.AllBodies(c) {
		b := b
		core.Inspect(b.Root(), func(n ast.Node) bool {
			if u, ok := n.(*ast.UnaryExpr); ok && u.Op == token.ARROW && core.IsFieldNamed(b.Pkg.TypesInfo, u.X, c03.Syncer, "WaitFull") {
				gated = true
			}
			if isClose(b.Pkg.TypesInfo, n) {
				closes++
				if b.Lit == nil && b.Decl == sp.Fn.Decl {
					closesInSync++
				}
			}
			return true
		})
	}
	if !gated {
		return
	}
	releases := func(n ast.Node) bool { return c03.InCallee(c, sp.Info, n, isClose) }
	w := sp.Skips(releases)
	switch {
	case closes == 0:
		c.Failf(rule, key, sp.Fn.Decl.Pos(), "ds.WaitFull is never closed: the ACK goroutine acknowledges offset 0 for ever and never advances ds.sourceOffset, so a reconnect asks for bytes that were already received")
	case w == nil:
		c.Okf(rule, key, sp.Fn.Decl.Pos(), "ds.WaitFull is closed on every path from the PSYNC into the incremental phase")
	case closes != closesInSync || !sp.Direct:
		c.Undecidedf(rule, key, sp.Fn.Decl.Pos(), "a path from the PSYNC into the incremental phase does not close ds.WaitFull in Sync; it is also closed elsewhere / the phase starts in a helper")
	default:
		c.Check(rule, key, sp.Fn.Decl.Pos(), false, "ds.WaitFull is not closed on every path from a successful sendPSyncCmd into the incremental phase: on that path (e.g. the source answers +CONTINUE, so there is no RDB phase) the ACK goroutine keeps sending REPLCONF ACK 0 and never adds the received bytes to ds.sourceOffset; the acknowledged offset is not `start offset + bytes received`, and a re-established link asks for PSYNC <checkpoint>+1 again, i.e. for bytes that were already received and forwarded (commands applied twice)", w...)
	}
}

// ---------------------------------------------------------------------------
// R1 no double counting

type counter struct {
	obj   *types.Var
	in    c03.MBody // declaring body
	decl  *ast.FuncDecl
	ord   int
	adds  int
	reset int
	field bool // obj is a struct field (see counterOrigins)
}

// atomicMethod: call is method `name` of atomic2.Int64 on variable v (directly or through a pointer deref).
func atomicMethod(info *types.Info, call *ast.CallExpr) (recv ast.Expr, name string, ok bool) {
	sel := c03.MethodSel(info, call)
	if sel == nil {
		return nil, "", false
	}
	f := core.CalleeFunc(info, call)
	if f == nil {
		f, _ = info.Uses[sel.Sel].(*types.Func)
	}
	if f == nil || f.Pkg() == nil || !strings.HasSuffix(f.Pkg().Path(), atomicPkg) {
		return nil, "", false
	}
	sig := f.Type().(*types.Signature)
	if sig.Recv() == nil || core.NamedTypeName(sig.Recv().Type()) != "Int64" {
		return nil, "", false
	}
	return sel.X, f.Name(), true
}

// advance: call adds to an atomic2.Int64 counter: k.Add(x), k.Incr() (delta nil: one),
// or the read-modify-write k.Set(k.Get() + x) on the same variable.
func advance(info *types.Info, call *ast.CallExpr) (delta ast.Expr, ok bool) {
	recv, name, isM := atomicMethod(info, call)
	if !isM {
		return nil, false
	}
	switch name {
	case "Incr":
		return nil, true
	case "Add":
		if len(call.Args) == 1 {
			return call.Args[0], true
		}
	case "Set":
		if len(call.Args) != 1 {
			return nil, false
		}
		be, isB := ast.Unparen(call.Args[0]).(*ast.BinaryExpr)
		if !isB || be.Op != token.ADD {
			return nil, false
		}
		isGet := func(e ast.Expr) bool {
			g, isC := ast.Unparen(e).(*ast.CallExpr)
			if !isC {
				return false
			}
			r2, n2, ok2 := atomicMethod(info, g)
			return ok2 && n2 == "Get" && baseVar(info, r2) != nil && baseVar(info, r2) == baseVar(info, recv)
		}
		switch {
		case isGet(be.X) && !isGet(be.Y):
			return be.Y, true
		case isGet(be.Y) && !isGet(be.X):
			return be.X, true
		}
	}
	return nil, false
}

func baseVar(info *types.Info, e ast.Expr) *types.Var {
	for {
		e = ast.Unparen(e)
		switch x := e.(type) {
		case *ast.StarExpr:
			e = x.X
			continue
		case *ast.UnaryExpr:
			if x.Op == token.AND {
				e = x.X
				continue
			}
		case *ast.Ident:
			v, _ := core.ObjOf(info, x).(*types.Var)
			return v
		case *ast.SelectorExpr:
			// a counter owned by a small struct type (`cur.nread`): the field stands for the counter
			if f := core.FieldOf(info, x); f != nil && strings.HasSuffix(core.NamedTypePath(derefType(f.Type())), atomicPkg+".Int64") {
				return f
			}
		}
		return nil
	}
}

// looksLikeAdvance: Add / Incr of an atomic2.Int64, or Set(<its Get()> + x), whatever the receiver looks like
// (a plain Set(x) overwrites the counter: not an advance).
func looksLikeAdvance(info *types.Info, call *ast.CallExpr) bool {
	_, name, ok := atomicMethod(info, call)
	if !ok {
		return false
	}
	switch name {
	case "Add", "Incr":
		return true
	case "Set":
		if len(call.Args) != 1 {
			return false
		}
		be, isB := ast.Unparen(call.Args[0]).(*ast.BinaryExpr)
		if !isB || be.Op != token.ADD {
			return false
		}
		for _, side := range []ast.Expr{be.X, be.Y} {
			if g, isC := ast.Unparen(side).(*ast.CallExpr); isC {
				if _, n2, ok2 := atomicMethod(info, g); ok2 && n2 == "Get" {
					return true
				}
			}
		}
	}
	return false
}

// anyAtomicAdvance: some atomic2.Int64 is advanced under root, whatever its receiver looks like.
func anyAtomicAdvance(info *types.Info, root ast.Node) bool {
	found := false
	core.InspectAll(root, func(n ast.Node) bool {
		if call, ok := n.(*ast.CallExpr); ok {
			if looksLikeAdvance(info, call) {
				found = true
			}
		}
		return true
	})
	return found
}

func derefType(t types.Type) types.Type {
	if p, ok := t.(*types.Pointer); ok {
		return p.Elem()
	}
	return t
}

// aliasOf follows a pointer-typed local that is defined once as `&k` (or as a
// copy of such a pointer) to the counter k; other variables are returned as they are.
func aliasOf(info *types.Info, scope ast.Node, v *types.Var) *types.Var {
	for step := 0; step < 4 && v != nil; step++ {
		if _, isPtr := v.Type().(*types.Pointer); !isPtr || v.IsField() || scope == nil {
			return v
		}
		var ref *ast.Ident
		core.InspectAll(scope, func(m ast.Node) bool {
			if id, ok := m.(*ast.Ident); ok && ref == nil && info.Uses[id] == types.Object(v) {
				ref = id
			}
			return true
		})
		if ref == nil {
			return v
		}
		o, ok := c03.SoleOrigin(info, scope, ref)
		if !ok || o.Expr == nil || o.Op != 0 || o.Range || o.Res > 0 || o.Param {
			return v
		}
		w := baseVar(info, o.Expr)
		if w == nil || w == v {
			return v
		}
		v = w
	}
	return v
}

// paramIndex returns the position of v among the parameters of fd (-1 if it is not one).
func paramIndex(info *types.Info, fd *ast.FuncDecl, v *types.Var) int {
	i := 0
	for _, f := range fd.Type.Params.List {
		for _, nm := range f.Names {
			if info.Defs[nm] == types.Object(v) {
				return i
			}
			i++
		}
	}
	return -1
}

func paramVar(fn *core.Fn, idx int) *types.Var {
	i := 0
	for _, f := range fn.Decl.Type.Params.List {
		for _, nm := range f.Names {
			if i == idx {
				v, _ := fn.Pkg.TypesInfo.Defs[nm].(*types.Var)
				return v
			}
			i++
		}
	}
	return nil
}

// counterOps counts Add-like and reset-like operations on counter v inside
// root, following the counter into module helpers that receive its address.
func counterOps(c *core.Ctx, info *types.Info, root ast.Node, v *types.Var, depth int, adds, resets *int, escaped *bool) {
	core.InspectAll(root, func(n ast.Node) bool {
		call, ok := n.(*ast.CallExpr)
		if !ok {
			return true
		}
		if recv, name, ok := atomicMethod(info, call); ok && aliasOf(info, root, baseVar(info, recv)) == v {
			switch name {
			case "Add", "Incr":
				*adds++
			case "Set", "Swap", "CompareAndSwap", "Sub", "Decr":
				if _, isAdv := advance(info, call); isAdv {
					*adds++ // k.Set(k.Get() + x)
				} else {
					*resets++
				}
			}
			return true
		}
		for i, a := range call.Args {
			if baseVar(info, a) != v {
				continue
			}
			if _, isCall := ast.Unparen(a).(*ast.CallExpr); isCall {
				continue
			}
			if _, _, isM := atomicMethod(info, call); isM {
				continue
			}
			fn := c.FnOf(core.CalleeFunc(info, call))
			pv := (*types.Var)(nil)
			if fn != nil && fn.Decl.Body != nil {
				pv = paramVar(fn, i)
			}
			if pv == nil || depth == 0 {
				if tv := info.TypeOf(a); tv != nil {
					if _, isPtr := tv.(*types.Pointer); isPtr {
						*escaped = true
					}
				}
				continue
			}
			counterOps(c, fn.Pkg.TypesInfo, fn.Decl.Body, pv, depth-1, adds, resets, escaped)
		}
		return true
	})
}

// counterOrigins resolves the atomic2.Int64 variable v (a local, or a pointer
// parameter) to the local counters it may denote.
func counterOrigins(c *core.Ctx, b c03.MBody, v *types.Var, depth int) (out []*counter, unknown bool) {
	info := b.Pkg.TypesInfo
	if v == nil {
		return nil, true
	}
	if v.IsField() {
		// a field of a struct type of the module: one counter per instance; all operations on the
		// field anywhere in its package are operations on it
		if v.Pkg() == nil || !strings.HasPrefix(v.Pkg().Path(), core.Module) {
			return nil, true
		}
		return []*counter{{obj: v, in: b, decl: b.Decl, field: true}}, false
	}
	if _, isPtr := v.Type().(*types.Pointer); !isPtr {
		if v.Parent() == nil || v.Parent() == v.Pkg().Scope() {
			return nil, true
		}
		return []*counter{{obj: v, in: b, decl: b.Decl}}, false
	}
	idx := paramIndex(info, b.Decl, v)
	if idx < 0 && depth > 0 {
		// a pointer-typed local: `p := &counter` or a copy of another pointer
		var ref *ast.Ident
		core.InspectAll(b.Decl.Body, func(m ast.Node) bool {
			if id, ok := m.(*ast.Ident); ok && ref == nil && core.ObjOf(info, id) == types.Object(v) {
				ref = id
			}
			return true
		})
		if ref != nil {
			if o, ok := c03.SoleOrigin(info, b.Decl, ref); ok && o.Expr != nil && o.Op == 0 && !o.Range && o.Res <= 0 && ast.Unparen(o.Expr) != ast.Expr(ref) {
				if w := baseVar(info, o.Expr); w != nil && w != v {
					return counterOrigins(c, b, w, depth-1)
				}
				// `p := new(atomic2.Int64)` / `p := &atomic2.Int64{}`: the pointer variable is the counter
				fresh := false
				switch x := ast.Unparen(o.Expr).(type) {
				case *ast.CallExpr:
					if bi, ok := core.Callee(info, x).(*types.Builtin); ok && bi.Name() == "new" {
						fresh = true
					}
				case *ast.UnaryExpr:
					if _, isLit := ast.Unparen(x.X).(*ast.CompositeLit); isLit && x.Op == token.AND {
						fresh = true
					}
				}
				if fresh {
					return []*counter{{obj: v, in: b, decl: b.Decl}}, false
				}
			}
		}
	}
	if idx < 0 || b.Lit != nil || depth == 0 {
		return nil, true
	}
	declObj, _ := info.Defs[b.Decl.Name].(*types.Func)
	calls := c03.CallsTo(c, declObj)
	if len(calls) == 0 {
		return nil, true
	}
	for _, cs := range calls {
		if idx >= len(cs.Call.Args) {
			return nil, true
		}
		o, u := counterOrigins(c, cs.In, baseVar(cs.In.Pkg.TypesInfo, cs.Call.Args[idx]), depth-1)
		out = append(out, o...)
		unknown = unknown || u
	}
	return out, unknown
}

// loopAround reports whether node (in body b) executes repeatedly: it lies in
// a loop of b that does not enclose pos, or b is a function whose call sites do.
func loopAround(c *core.Ctx, b c03.MBody, node ast.Node, pos token.Pos, depth int) bool {
	path := core.PathTo(b.Decl.Body, node)
	for i, pn := range path {
		switch l := pn.(type) {
		case *ast.ForStmt, *ast.RangeStmt:
			if l != node && !(l.Pos() <= pos && pos < l.End()) && !c03.RunsOnce(path, i) {
				return true
			}
		}
	}
	if depth == 0 {
		return false
	}
	declObj, _ := b.Pkg.TypesInfo.Defs[b.Decl.Name].(*types.Func)
	for _, cs := range c03.CallsTo(c, declObj) {
		if loopAround(c, cs.In, cs.Call, pos, depth-1) {
			return true
		}
	}
	return false
}

func r1(c *core.Ctx) {
	const rule = "R1.double-count"
	pk := c.Pkg(c03.DbSync)
	info := pk.TypesInfo
	// (a) every accumulation `dst += k.Get()` / `dst = dst + k.Get()` in dbSync
	nAcc := 0
	accumulated := map[*types.Var]bool{}
	for _, b := range c03.AllBodies(c) {
		if b.Pkg != pk {
			continue
		}
		b := b
		core.Inspect(b.Root(), func(n ast.Node) bool {
			x, ok := n.(*ast.AssignStmt)
			if !ok || len(x.Lhs) != len(x.Rhs) {
				return true
			}
			for i, r := range x.Rhs {
				var src *types.Var
				ast.Inspect(r, func(m ast.Node) bool {
					if call, ok := m.(*ast.CallExpr); ok {
						if recv, name, ok := atomicMethod(info, call); ok && name == "Get" && baseVar(info, recv) != nil {
							src = baseVar(info, recv)
						}
					}
					return true
				})
				if src == nil {
					continue
				}
				acc := x.Tok == token.ADD_ASSIGN
				if x.Tok == token.ASSIGN {
					if be, ok := ast.Unparen(r).(*ast.BinaryExpr); ok && be.Op == token.ADD && (core.SameRef(info, be.X, x.Lhs[i]) || core.SameRef(info, be.Y, x.Lhs[i])) {
						acc = true
					}
				}
				if !acc {
					continue
				}
				nAcc++
				dst := "local"
				if f := core.FieldOf(info, x.Lhs[i]); f != nil {
					dst = f.Name()
				} else if st, ok := ast.Unparen(x.Lhs[i]).(*ast.StarExpr); ok {
					// through a pointer local: `p := &ds.sourceOffset; *p += ...`
					if o, ok := c03.SoleOrigin(info, b.Decl, st.X); ok && o.Expr != nil && o.Op == 0 && !o.Range && o.Res < 0 {
						if u, ok := ast.Unparen(o.Expr).(*ast.UnaryExpr); ok && u.Op == token.AND {
							if f := core.FieldOf(info, u.X); f != nil {
								dst = f.Name()
							}
						}
					}
				}
				key := dst + "+=cumulative-counter"
				ks, unknown := counterOrigins(c, b, src, 3)
				if unknown || len(ks) == 0 {
					c.Undecidedf(rule, key, x.Pos(), "`%s`: cannot resolve the counter that is read", c.Src(x))
					continue
				}
				bad := false
				for _, k := range ks {
					accumulated[k.obj] = true
					escaped := false
					cpos := k.obj.Pos()
					if k.field {
						cpos = token.NoPos
						nlit := 0
						for _, ob := range c03.AllBodies(c) {
							if ob.Pkg.Types != k.obj.Pkg() || ob.Lit != nil {
								continue
							}
							counterOps(c, ob.Pkg.TypesInfo, ob.Decl.Body, k.obj, 3, &k.adds, &k.reset, &escaped)
							// the instance is created by a literal of the owning struct type: a loop around that
							// literal creates a fresh counter per iteration
							core.InspectAll(ob.Decl.Body, func(m ast.Node) bool {
								if cl, ok := m.(*ast.CompositeLit); ok {
									if st, ok := derefType(ob.Pkg.TypesInfo.TypeOf(cl)).Underlying().(*types.Struct); ok {
										for i := 0; i < st.NumFields(); i++ {
											if st.Field(i) == k.obj {
												nlit++
												cpos = cl.Pos()
											}
										}
									}
								}
								return true
							})
						}
						if nlit != 1 {
							cpos = token.NoPos
						}
					} else {
						counterOps(c, k.in.Pkg.TypesInfo, k.decl.Body, k.obj, 3, &k.adds, &k.reset, &escaped)
					}
					switch {
					case escaped:
						c.Undecidedf(rule, key, x.Pos(), "the counter's address is handed to code the rule does not follow")
						bad = true
					case k.reset == 0 && k.adds > 0 && loopAround(c, b, x, cpos, 3):
						bad = true
						c.Check(rule, key, x.Pos(), false, fmt.Sprintf(
							"`%s` runs on every iteration of a loop, but the counter is cumulative (only Add, never reset): each iteration adds the whole total again, so `%s` grows by the sum of all totals. "+
								"Witness: the source sends 1 KiB per second for 3 s after the full sync; the counter reads 1024, 2048, 3072 at the three ticks and the acknowledged offsets are start+1024, start+3072, start+6144 instead of start+1024, +2048, +3072: the ACK runs ahead of what was received, and the same field is the PSYNC offset after a reconnect and the base of every checkpoint offset",
							c.Src(x), c.Src(x.Lhs[i])))
					case k.adds == 0:
						c.Undecidedf(rule, key, x.Pos(), "`%s`: accumulation of a counter that is never added to", c.Src(x))
						bad = true
					}
					if bad {
						break
					}
				}
				if !bad {
					c.Okf(rule, key, x.Pos(), "accumulated once, or the counter is reset between reads")
				}
			}
			return true
		})
	}
	// (b) the remaining counters: their total is never accumulated
	perDecl := map[*ast.FuncDecl]int{}
	n := 0
	for _, b := range c03.AllBodies(c) {
		if b.Pkg != pk || b.Lit != nil {
			continue
		}
		b := b
		core.InspectAll(b.Decl.Body, func(m ast.Node) bool {
			// declared by `var k atomic2.Int64` or by a (parallel) short declaration
			var names []*ast.Ident
			switch x := m.(type) {
			case *ast.ValueSpec:
				names = x.Names
			case *ast.AssignStmt:
				if x.Tok == token.DEFINE {
					for _, l := range x.Lhs {
						if id, ok := l.(*ast.Ident); ok && info.Defs[id] != nil {
							names = append(names, id)
						}
					}
				}
			default:
				return true
			}
			for _, nm := range names {
				v, _ := info.Defs[nm].(*types.Var)
				if v == nil || !strings.HasSuffix(core.NamedTypePath(v.Type()), atomicPkg+".Int64") {
					continue
				}
				if _, isPtr := v.Type().(*types.Pointer); isPtr {
					continue
				}
				n++
				perDecl[b.Decl]++
				if !accumulated[v] {
					c.Okf(rule, fmt.Sprintf("%s/counter#%d", b.Decl.Name.Name, perDecl[b.Decl]), v.Pos(), "the counter's total is never accumulated into another variable")
				}
			}
			return true
		})
	}
	if n == 0 {
		c.Undecidedf(rule, "counters", token.NoPos, "no atomic2.Int64 local found in dbSync")
	}
}

// ---------------------------------------------------------------------------
// R2 ACK provenance

func r2(c *core.Ctx) {
	const rule = "R2.ack"
	ack := c.Func(c03.Common, "", "SendPSyncAck")
	copyFn := c.Func(c03.DbSync, c03.Syncer, "pSyncPipeCopy")
	if ack == nil || copyFn == nil {
		return
	}
	info := copyFn.Pkg.TypesInfo
	// the callee puts its argument on the wire unchanged
	ainfo := ack.Pkg.TypesInfo
	okWire := false
	var offParam types.Object
	if ps := ack.Decl.Type.Params.List; len(ps) == 2 && len(ps[1].Names) == 1 {
		offParam = ainfo.Defs[ps[1].Names[0]]
	}
	core.Inspect(ack.Decl.Body, func(n ast.Node) bool {
		if call, ok := n.(*ast.CallExpr); ok && core.IsFunc(core.CalleeFunc(ainfo, call), "pkg/redis", "", "NewCommand") && len(call.Args) == 3 {
			a0, _ := core.StringConst(ainfo, call.Args[0])
			a1, _ := core.StringConst(ainfo, call.Args[1])
			if strings.EqualFold(a0, "replconf") && strings.EqualFold(a1, "ack") && c03.IsObj(ainfo, offParam)(call.Args[2]) {
				okWire = true
			}
		}
		return true
	})
	if okWire {
		c.Okf(rule, "SendPSyncAck/wire", ack.Decl.Pos(), "REPLCONF ACK carries the offset parameter unchanged")
	} else {
		c.Undecidedf(rule, "SendPSyncAck/wire", ack.Decl.Pos(), "SendPSyncAck does not build NewCommand(\"replconf\", \"ack\", offset) from its parameter")
	}
	// the copy counter: the atomic2.Int64 that is Add-ed in pSyncPipeCopy's own loop
	var cnt *types.Var
	var addCall *ast.CallExpr
	var addArg ast.Expr // what the counter advances by (nil: Incr)
	var addCalls []*ast.CallExpr
	core.Inspect(copyFn.Decl.Body, func(n ast.Node) bool {
		if call, ok := n.(*ast.CallExpr); ok {
			if recv, _, ok := atomicMethod(info, call); ok {
				if d, isAdv := advance(info, call); isAdv {
					if addCall == nil {
						cnt, addCall, addArg = aliasOf(info, copyFn.Decl, baseVar(info, recv)), call, d
					}
					if aliasOf(info, copyFn.Decl, baseVar(info, recv)) == cnt {
						addCalls = append(addCalls, call)
					}
				}
			}
		}
		return true
	})
	// call sites; the argument is followed through parameters, locals and module helpers to its leaves
	n := 0
	for _, cs := range c03.CallsTo(c, ack.Obj) {
		n++
		key := "arg"
		if len(cs.Call.Args) != 2 {
			c.Undecidedf(rule, key, cs.Call.Pos(), "unexpected arity")
			continue
		}
		for _, lf := range ackLeaves(c, cs.In, cs.Call.Args[1], cs.Call, false, 3) {
			ci := lf.b.Pkg.TypesInfo
			arg := lf.e
			afterFull := lf.gated
			// keyed by role: what is acknowledged before / after the full sync is done
			key := "arg/before-full-sync"
			if afterFull {
				key = "arg/after-full-sync"
			}
			v, isConst := core.IntConst(ci, arg)
			if lf.zero {
				v, isConst = 0, true
			}
			if isConst {
				if v == 0 && !afterFull {
					c.Okf(rule, key, arg.Pos(), "ACK 0 while the full sync is still running")
				} else {
					c.Failf(rule, key, arg.Pos(), "REPLCONF ACK is sent with the constant %d: the acknowledged offset is not `start offset + bytes consumed`", v)
				}
				continue
			}
			// summands
			var terms []ast.Expr
			var split func(e ast.Expr)
			split = func(e ast.Expr) {
				e = ast.Unparen(e)
				if be, ok := e.(*ast.BinaryExpr); ok && be.Op == token.ADD {
					split(be.X)
					split(be.Y)
					return
				}
				terms = append(terms, e)
			}
			split(arg)
			base, bad := 0, ""
			for _, t := range terms {
				switch {
				case c03.IsSourceOffset(ci, t):
					base++
				default:
					if call, ok := t.(*ast.CallExpr); ok {
						if recv, name, ok := atomicMethod(ci, call); ok && name == "Get" && cnt != nil {
							ks, unknown := counterOrigins(c, lf.b, baseVar(ci, recv), 3)
							if !unknown && len(ks) == 1 && ks[0].obj == cnt {
								continue
							}
						}
					}
					bad = c.Src(t)
				}
			}
			switch {
			case bad == "" && base == 1:
				c.Okf(rule, key, arg.Pos(), "ACK argument is ds.sourceOffset%s", map[bool]string{true: " + the copy counter", false: ""}[len(terms) > 1])
			case bad == "" && base == 0:
				c.Failf(rule, key, arg.Pos(), "REPLCONF ACK is sent with `%s`, which lacks the offset announced by the source at sync start: the source sees an offset far behind/unrelated to its own and may drop the link", c.Src(arg))
			case base > 1:
				c.Failf(rule, key, arg.Pos(), "REPLCONF ACK adds ds.sourceOffset %d times", base)
			default:
				c.Undecidedf(rule, key, arg.Pos(), "ACK argument has a summand `%s` that is neither ds.sourceOffset nor the copy counter", bad)
			}
		}
	}
	if n == 0 {
		c.Undecidedf(rule, "arg", ack.Decl.Pos(), "SendPSyncAck is never called")
	}
	// the copy loop: n, err := br.Read(p); copyto.Write(p[:n]); counter.Add(int64(n))
	g := cfgq.Of(c.Program, copyFn)
	var read *ast.AssignStmt
	core.Inspect(copyFn.Decl.Body, func(m ast.Node) bool {
		if as, ok := m.(*ast.AssignStmt); ok && len(as.Lhs) == 2 && len(as.Rhs) == 1 {
			if call, ok := ast.Unparen(as.Rhs[0]).(*ast.CallExpr); ok {
				if sel := c03.MethodSel(info, call); sel != nil && sel.Sel.Name == "Read" && core.NamedTypePath(info.TypeOf(sel.X)) == "bufio.Reader" {
					read = as
				}
			}
		}
		return true
	})
	inHelper := false
	core.InspectAll(copyFn.Decl.Body, func(n ast.Node) bool {
		if call, ok := n.(*ast.CallExpr); ok && !inHelper {
			inHelper = c03.CalleeHas(c, info, call, 2, func(i *types.Info, m ast.Node) bool {
				cl, ok := m.(*ast.CallExpr)
				if !ok {
					return false
				}
				return looksLikeAdvance(i, cl)
			})
		}
		return true
	})
	if read != nil && addCall == nil && (inHelper || anyAtomicAdvance(info, copyFn.Decl.Body)) {
		c.Undecidedf(rule, "copy-counter", read.Pos(), "pSyncPipeCopy advances a counter the rule cannot identify (not a local atomic2.Int64 or a field of one)")
		return
	}
	if read != nil && addCall == nil {
		c.Failf(rule, "copy-counter/every-chunk", read.Pos(), "pSyncPipeCopy copies the replication stream but never adds the copied bytes to a counter: the acknowledged offset (and the PSYNC offset after a reconnect) stays at the start offset, so a reconnect re-requests bytes that were already forwarded (commands applied twice)")
		return
	}
	if read == nil || addCall == nil || cnt == nil {
		c.Undecidedf(rule, "copy-counter", copyFn.Decl.Pos(), "pSyncPipeCopy has no `n, err := br.Read(p)` / counter.Add pair")
		return
	}
	nObj := core.ObjOf(info, read.Lhs[0])
	rp, _ := g.Find(read)
	// isN: e, used at node `use`, is the n of this iteration's Read: the variable itself, or a local
	// all of whose definitions are result #0 of the Read / copies of n, one of which executes on every
	// path from the Read to the use
	var isN func(e ast.Expr, use ast.Node, depth int) bool
	isN = func(e ast.Expr, use ast.Node, depth int) bool {
		e = stripConv(info, e)
		if c03.IsObj(info, nObj)(e) {
			return true
		}
		id, ok := e.(*ast.Ident)
		if !ok || depth == 0 {
			return false
		}
		v := core.ObjOf(info, id)
		k := 0
		for _, o := range c03.Origins1(info, copyFn.Decl, id) {
			if o.Zero {
				continue
			}
			k++
			if o.Expr == nil || o.Op != 0 || o.Range || o.Param {
				return false
			}
			if ast.Unparen(o.Expr) == ast.Unparen(read.Rhs[0]) && o.Res <= 0 {
				continue
			}
			if o.Res >= 0 || !isN(o.Expr, o.Stmt, depth-1) {
				return false
			}
		}
		if k == 0 {
			return false
		}
		up, ok := g.Find(use)
		if !ok {
			return false
		}
		un := up.Node()
		w := g.Path(cfgq.Query{From: rp, After: true, Avoid: func(m ast.Node) bool {
			as, ok := m.(*ast.AssignStmt)
			if !ok {
				return false
			}
			for _, l := range as.Lhs {
				if c03.IsObj(info, v)(l) {
					return true
				}
			}
			return false
		}, Target: func(m ast.Node) bool { return m == un }})
		return w == nil
	}
	okN := addArg != nil && isN(addArg, addCall, 4)
	viaWrite := false
	if addArg != nil && !okN {
		if o, ok := c03.SoleOrigin(info, copyFn.Decl.Body, stripConv(info, addArg)); ok && o.Expr != nil {
			if call, ok := ast.Unparen(o.Expr).(*ast.CallExpr); ok && o.Res <= 0 {
				if sel := c03.MethodSel(info, call); sel != nil && sel.Sel.Name == "Write" {
					viaWrite = true
				}
			}
		}
	}
	if viaWrite {
		// the count returned by Write(p[:n]) equals n whenever Write reported no error (io.Writer contract)
		if o, ok := c03.SoleOrigin(info, copyFn.Decl.Body, stripConv(info, addArg)); ok {
			if wc, ok := ast.Unparen(o.Expr).(*ast.CallExpr); ok && len(wc.Args) == 1 {
				arg := wc.Args[0]
				if ao, ok := c03.SoleOrigin(info, copyFn.Decl.Body, arg); ok && ao.Expr != nil && ao.Op == 0 && !ao.Range && ao.Res <= 0 {
					arg = ao.Expr
				}
				if se, ok := ast.Unparen(arg).(*ast.SliceExpr); ok && se.Low == nil && se.High != nil && isN(se.High, wc, 4) {
					okN = true
				}
			}
		}
	}
	if okN {
		c.Okf(rule, "copy-counter/adds-read-length", addCall.Pos(), "the counter advances by the n of this iteration's Read")
	} else if viaWrite || addArg == nil || !core.Mentions(info, addArg, nObj) && !isLenCall(info, stripConv(info, addArg)) {
		what := "1 (Incr)"
		if addArg != nil {
			what = c.Src(addArg)
		}
		c.Undecidedf(rule, "copy-counter/adds-read-length", addCall.Pos(), "the counter advances by `%s`: not the known form (the n of the Read)", what)
	} else {
		c.Failf(rule, "copy-counter/adds-read-length", addCall.Pos(), "the counter advances by `%s`, not by the number of bytes the Read returned: the acknowledged offset drifts from the bytes really received (e.g. a 100-byte read counted as len(p) = 8192)", c.Src(addArg))
	}
	ap, _ := g.Find(addCall)
	isRead := func(m ast.Node) bool { return m == ast.Node(read) }
	isAdd := func(m ast.Node) bool {
		for _, a := range addCalls {
			if p, ok := g.Find(a); ok && p.Node() == m {
				return true
			}
		}
		return false
	}
	fl := c03.NewFlow(g)
	empty := func(ft cfgq.Fact) bool { // nothing was read
		eq, ok := c03.EqFact(ft, c03.IsObj(info, nObj), func(x ast.Expr) bool { v, ok := core.IntConst(info, x); return ok && v == 0 })
		return ok && eq
	}
	w := g.Path(cfgq.Query{From: rp, After: true, Avoid: isAdd, AvoidEdge: fl.Edge(empty), Target: isRead})
	c.Check(rule, "copy-counter/every-chunk", addCall.Pos(), w == nil, "every chunk that was read and written must be counted before the next Read: uncounted bytes make the acknowledged offset fall behind and a reconnect re-request bytes already forwarded (commands applied twice)", w...)
	w = nil
	for _, a := range addCalls {
		if p, ok := g.Find(a); ok && w == nil {
			w = g.Path(cfgq.Query{From: p, After: true, Avoid: isRead, Target: isAdd})
		}
	}
	c.Check(rule, "copy-counter/once-per-chunk", addCall.Pos(), w == nil, "a chunk must be counted once: counting it twice makes the acknowledged offset (and the PSYNC offset after a reconnect) run ahead of the bytes received, so the source skips stream bytes on reconnect", w...)
	// counted only after a successful write of exactly p[:n]
	var write *ast.CallExpr
	core.Inspect(copyFn.Decl.Body, func(m ast.Node) bool {
		if call, ok := m.(*ast.CallExpr); ok && len(call.Args) == 1 {
			if sel := c03.MethodSel(info, call); sel != nil && sel.Sel.Name == "Write" {
				arg := call.Args[0]
				if o, ok := c03.SoleOrigin(info, copyFn.Decl.Body, arg); ok && o.Expr != nil && o.Op == 0 && !o.Range && o.Res <= 0 {
					arg = o.Expr // `chunk := p[:n]`
				}
				if se, ok := ast.Unparen(arg).(*ast.SliceExpr); ok && se.Low == nil && se.High != nil && isN(se.High, call, 4) {
					write = call
				}
			}
		}
		return true
	})
	if write == nil {
		c.Undecidedf(rule, "copy-counter/after-write", addCall.Pos(), "no Write(p[:n]) of the bytes just read")
	} else {
		wp, _ := g.Find(write)
		// every path to the count passes the write, not counting branches that say the Read failed
		errObj := core.ObjOf(info, read.Lhs[1])
		wfl := c03.NewFlow(g)
		readFailed := wfl.Edge(func(ft cfgq.Fact) bool {
			eq, ok := c03.EqFact(ft, c03.IsObj(info, errObj), func(x ast.Expr) bool { return core.IsNil(info, x) })
			return ok && !eq
		})
		an := ap.Node()
		skip := g.Path(cfgq.Query{From: rp, After: true, Avoid: func(m ast.Node) bool { return m == wp.Node() }, AvoidEdge: readFailed,
			Target: func(m ast.Node) bool { return m == an }})
		if skip == nil {
			c.Okf(rule, "copy-counter/after-write", addCall.Pos(), "bytes are counted only after they were handed to the pipe")
		} else {
			c.Undecidedf(rule, "copy-counter/after-write", addCall.Pos(), "bytes can be counted before they were handed to the pipe: not the known copy-then-count order")
		}
	}
}

type ackLeaf struct {
	e     ast.Expr
	b     c03.MBody
	gated bool // evaluated under `case <-ds.WaitFull:` (the full sync is done)
	zero  bool // the zero value of a variable declared without initialiser
}

func declBody(c *core.Ctx, fd *ast.FuncDecl) (c03.MBody, bool) {
	for _, b := range c03.AllBodies(c) {
		if b.Lit == nil && b.Decl == fd {
			return b, true
		}
	}
	return c03.MBody{}, false
}

// ackLeaves follows an expression through parameters (to the arguments of all
// call sites), locals and single-result module helpers (to their returned
// expressions) and reports the expressions it ends in.
func ackLeaves(c *core.Ctx, b c03.MBody, e ast.Expr, at ast.Node, gated bool, depth int) []ackLeaf {
	info := b.Pkg.TypesInfo
	for _, pn := range core.PathTo(b.Decl.Body, at) {
		if cc, ok := pn.(*ast.CommClause); ok && cc.Comm != nil {
			ast.Inspect(cc.Comm, func(m ast.Node) bool {
				if u, ok := m.(*ast.UnaryExpr); ok && u.Op == token.ARROW && core.IsFieldNamed(info, u.X, c03.Syncer, "WaitFull") {
					gated = true
				}
				return true
			})
		}
	}
	e = stripConv(info, e)
	leaf := []ackLeaf{{e: e, b: b, gated: gated}}
	if depth == 0 {
		return leaf
	}
	switch x := e.(type) {
	case *ast.Ident:
		v, _ := core.ObjOf(info, x).(*types.Var)
		if v == nil {
			return leaf
		}
		if idx := paramIndex(info, b.Decl, v); idx >= 0 {
			declObj, _ := info.Defs[b.Decl.Name].(*types.Func)
			var out []ackLeaf
			for _, cs := range c03.CallsTo(c, declObj) {
				if idx < len(cs.Call.Args) && !cs.Call.Ellipsis.IsValid() {
					out = append(out, ackLeaves(c, cs.In, cs.Call.Args[idx], cs.Call, gated, depth-1)...)
				} else {
					return leaf
				}
			}
			if len(out) == 0 {
				return leaf
			}
			return out
		}
		if b.Lit != nil {
			// a parameter of a closure bound once to a local: follow it to the arguments of the closure's calls
			if idx := litParamIndex(info, b.Lit, v); idx >= 0 {
				sites := closureCalls(c, b)
				var out []ackLeaf
				for _, cs := range sites {
					if idx < len(cs.Call.Args) && !cs.Call.Ellipsis.IsValid() {
						out = append(out, ackLeaves(c, cs.In, cs.Call.Args[idx], cs.Call, gated, depth-1)...)
					} else {
						return leaf
					}
				}
				if len(out) == 0 {
					return leaf
				}
				return out
			}
		}
		var out []ackLeaf
		for _, o := range c03.Origins(info, b.Decl.Body, x) {
			if o.Zero {
				out = append(out, ackLeaf{e: x, b: b, gated: gated, zero: true})
				continue
			}
			if o.Expr == nil || o.Op != 0 || o.Range || o.Res > 0 || ast.Unparen(o.Expr) == ast.Expr(x) {
				return leaf
			}
			var pos ast.Node = o.Expr
			out = append(out, ackLeaves(c, b, o.Expr, pos, gated, depth-1)...)
		}
		if len(out) == 0 {
			return leaf
		}
		return out
	case *ast.CallExpr:
		if _, _, isAtomic := atomicMethod(info, x); isAtomic {
			return leaf
		}
		fn := c.FnOf(core.CalleeFunc(info, x))
		if fn == nil || fn.Decl.Body == nil || !strings.HasPrefix(fn.Pkg.PkgPath, core.Module) || fn.Obj.Type().(*types.Signature).Results().Len() != 1 {
			return leaf
		}
		fb, ok := declBody(c, fn.Decl)
		if !ok {
			return leaf
		}
		var out []ackLeaf
		core.Inspect(fn.Decl.Body, func(m ast.Node) bool {
			if ret, ok := m.(*ast.ReturnStmt); ok && len(ret.Results) == 1 {
				out = append(out, ackLeaves(c, fb, ret.Results[0], ret, gated, depth-1)...)
			}
			return true
		})
		if len(out) == 0 {
			return leaf
		}
		return out
	}
	return leaf
}

func litParamIndex(info *types.Info, lit *ast.FuncLit, v *types.Var) int {
	i := 0
	for _, f := range lit.Type.Params.List {
		for _, nm := range f.Names {
			if info.Defs[nm] == types.Object(v) {
				return i
			}
			i++
		}
	}
	return -1
}

// closureCalls: b is a function literal bound once to a local variable that is
// only ever called; returns its call sites (nil when the literal is used in
// any other way).
func closureCalls(c *core.Ctx, b c03.MBody) []c03.CallSite {
	info := b.Pkg.TypesInfo
	var obj types.Object
	core.InspectAll(b.Decl.Body, func(n ast.Node) bool {
		switch x := n.(type) {
		case *ast.AssignStmt:
			if len(x.Lhs) == len(x.Rhs) {
				for i, r := range x.Rhs {
					if ast.Unparen(r) == ast.Expr(b.Lit) {
						obj = core.ObjOf(info, x.Lhs[i])
					}
				}
			}
		case *ast.ValueSpec:
			if len(x.Names) == len(x.Values) {
				for i, r := range x.Values {
					if ast.Unparen(r) == ast.Expr(b.Lit) {
						obj = info.Defs[x.Names[i]]
					}
				}
			}
		}
		return true
	})
	if obj == nil {
		return nil
	}
	var out []c03.CallSite
	uses := 0
	for _, b2 := range c03.AllBodies(c) {
		if b2.Decl != b.Decl {
			continue
		}
		b2 := b2
		core.Inspect(b2.Root(), func(n ast.Node) bool {
			switch x := n.(type) {
			case *ast.CallExpr:
				if id, ok := ast.Unparen(x.Fun).(*ast.Ident); ok && core.ObjOf(info, id) == obj {
					out = append(out, c03.CallSite{In: b2, Call: x})
				}
			case *ast.Ident:
				if info.Uses[x] == obj {
					uses++
				}
			}
			return true
		})
	}
	// every use of the variable is a call (`f := lit` is a definition, not a use)
	if uses != len(out) {
		return nil
	}
	return out
}

func isLenCall(info *types.Info, e ast.Expr) bool {
	call, ok := ast.Unparen(e).(*ast.CallExpr)
	if !ok {
		return false
	}
	b, ok := core.Callee(info, call).(*types.Builtin)
	return ok && (b.Name() == "len" || b.Name() == "cap")
}

func stripConv(info *types.Info, e ast.Expr) ast.Expr {
	for {
		e = ast.Unparen(e)
		call, ok := e.(*ast.CallExpr)
		if !ok || len(call.Args) != 1 {
			return e
		}
		if tv, ok := info.Types[call.Fun]; !ok || !tv.IsType() {
			return e
		}
		e = call.Args[0]
	}
}

// reconnectInLoop: the reconnect PSYNC precedes the next pSyncPipeCopy on every path.
func reconnectInLoop(c *core.Ctx) {
	const rule = "R3.reconnect"
	fn := c.LookupFunc(c03.DbSync, c03.Syncer, "runIncrementalSync")
	cp := c.LookupFunc(c03.DbSync, c03.Syncer, "pSyncPipeCopy")
	ps := c.LookupFunc(c03.Common, "", "SendPSyncContinue")
	if fn == nil || cp == nil || ps == nil {
		return
	}
	g := cfgq.Of(c.Program, fn)
	isCopy := g.HasCall(func(call *ast.CallExpr, callee types.Object) bool { return callee == types.Object(cp.Obj) })
	info := fn.Pkg.TypesInfo
	isPsync := g.HasCall(func(call *ast.CallExpr, callee types.Object) bool {
		if callee == types.Object(ps.Obj) {
			return true
		}
		// or a helper of the module that issues the PSYNC
		return c03.CalleeHas(c, info, call, 2, func(i *types.Info, m ast.Node) bool {
			cl, ok := m.(*ast.CallExpr)
			return ok && core.CalleeFunc(i, cl) == ps.Obj
		})
	})
	// a PSYNC inside a closure that the node calls through a local, or hands to a higher-order helper:
	// whether it runs before the next copy depends on the closure's result, which the path query does not follow
	hasPsync := func(root ast.Node) bool {
		found := false
		core.InspectAll(root, func(m ast.Node) bool {
			if cl, ok := m.(*ast.CallExpr); ok {
				if core.CalleeFunc(info, cl) == ps.Obj || c03.CalleeHas(c, info, cl, 2, func(i *types.Info, m2 ast.Node) bool {
					c2, ok := m2.(*ast.CallExpr)
					return ok && core.CalleeFunc(i, c2) == ps.Obj
				}) {
					found = true
				}
			}
			return true
		})
		return found
	}
	mayPsync := func(n ast.Node) bool {
		for _, call := range cfgq.ExecCalls(n) {
			if lit := c03.LocalClosure(info, fn.Decl, call.Fun); lit != nil && hasPsync(lit) {
				return true
			}
			for _, a := range call.Args {
				if lit, ok := ast.Unparen(a).(*ast.FuncLit); ok && hasPsync(lit) {
					return true
				}
				if lit := c03.LocalClosure(info, fn.Decl, a); lit != nil && hasPsync(lit) {
					return true
				}
			}
		}
		return false
	}
	// `for !attempt() {}` / `if attempt() {...}` with attempt a closure bound to a local that returns
	// true only after the PSYNC: on the side of the test where it returned true the PSYNC has been issued
	trueMeansPsync := map[*ast.FuncLit]bool{}
	computed := map[*ast.FuncLit]bool{}
	decide := func(lit *ast.FuncLit) bool {
		if v, ok := trueMeansPsync[lit]; ok {
			return v
		}
		lg := cfgq.OfLit(c.Program, info, lit)
		inLit := lg.HasCall(func(call *ast.CallExpr, callee types.Object) bool {
			return callee == types.Object(ps.Obj) || c03.CalleeHas(c, info, call, 2, func(i *types.Info, m ast.Node) bool {
				cl, ok := m.(*ast.CallExpr)
				return ok && core.CalleeFunc(i, cl) == ps.Obj
			})
		})
		ok := lit.Type.Results != nil && lit.Type.Results.NumFields() == 1
		sawTrue := false
		core.Inspect(lit.Body, func(m ast.Node) bool {
			ret, isRet := m.(*ast.ReturnStmt)
			if !isRet || !ok {
				return true
			}
			if len(ret.Results) != 1 {
				ok = false
				return true
			}
			if tv, isC := info.Types[ret.Results[0]]; isC && tv.Value != nil && tv.Value.String() == "false" {
				return true
			} else if !isC || tv.Value == nil {
				computed[lit] = true // a computed result: the rule cannot say on which paths it is true
			}
			sawTrue = true
			if w := lg.Path(cfgq.Query{Avoid: inLit, Target: func(n ast.Node) bool { return n == ast.Node(ret) }}); w != nil {
				ok = false
			}
			return true
		})
		trueMeansPsync[lit] = ok && sawTrue
		return ok && sawTrue
	}
	psyncDone := func(b *cfg.Block, si int) bool {
		cond := cfgq.CondOf(b)
		if cond == nil || len(b.Succs) != 2 {
			return false
		}
		e, neg := ast.Unparen(cond), false
		for {
			u, ok := e.(*ast.UnaryExpr)
			if !ok || u.Op != token.NOT {
				break
			}
			e, neg = ast.Unparen(u.X), !neg
		}
		call, ok := e.(*ast.CallExpr)
		if !ok || len(call.Args) != 0 {
			return false
		}
		lit := c03.LocalClosure(info, fn.Decl, call.Fun)
		if lit == nil || !decide(lit) {
			return false
		}
		return si == 0 && !neg || si == 1 && neg // the side on which the closure returned true
	}
	k := 0
	for _, pt := range g.Points(isCopy) {
		k++
		key := fmt.Sprintf("runIncrementalSync/psync-before-copy#%d", k)
		w := g.Path(cfgq.Query{From: pt, After: true, Avoid: isPsync, AvoidEdge: psyncDone, Target: isCopy})
		steered := func(n ast.Node) bool { // `[!]f()` as a branch condition with f a closure the rule has judged: nothing hidden there
			e, ok := n.(ast.Expr)
			if !ok {
				return false
			}
			e = ast.Unparen(e)
			for {
				u, isU := e.(*ast.UnaryExpr)
				if !isU || u.Op != token.NOT {
					break
				}
				e = ast.Unparen(u.X)
			}
			call, ok := e.(*ast.CallExpr)
			if !ok || len(call.Args) != 0 {
				return false
			}
			lit := c03.LocalClosure(info, fn.Decl, call.Fun)
			if lit == nil {
				return false
			}
			_, judged := trueMeansPsync[lit]
			return judged && !computed[lit]
		}
		hidden := func(n ast.Node) bool { return mayPsync(n) && !steered(n) }
		if w != nil && g.Path(cfgq.Query{From: pt, After: true, Avoid: cfgq.Or(isPsync, hidden), AvoidEdge: psyncDone, Target: isCopy}) == nil {
			c.Undecidedf(rule, key, pt.Node().Pos(), "the reconnect PSYNC is issued inside a closure whose result steers the retry loop; the rule cannot tell on this view that it runs before the next copy")
			continue
		}
		c.Check(rule, key, pt.Node().Pos(), w == nil,
			"after the copy loop broke, the stream may only be copied again after a new PSYNC with the remembered offset: copying from a fresh connection without PSYNC forwards no replication stream (or a full resync payload) into the command parser", w...)
	}
	if k == 0 {
		c.Undecidedf(rule, "runIncrementalSync/psync-before-copy", fn.Decl.Pos(), "runIncrementalSync does not call pSyncPipeCopy")
	}
}
