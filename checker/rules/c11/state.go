package c11

import (
	"fmt"
	"go/ast"
	"go/token"
	"go/types"
	"strings"

	"rscheck/core"
	"rscheck/pat"
)

// ---------------------------------------------------------------------------
// R2 state: one running field, zero start values, little-endian Sum

func state(c *core.Ctx, cp *crcPkg) {
	if cp.stepFn == nil {
		return
	}
	info := cp.pk.TypesInfo
	st := cp.stepFn
	// the Hash64 implementation: a named type with Write, Sum and Sum64
	scope := cp.pk.Types.Scope()
	for _, nm := range scope.Names() {
		if tn, ok := scope.Lookup(nm).(*types.TypeName); ok {
			if named, ok := tn.Type().(*types.Named); ok {
				ms := map[string]bool{}
				for i := 0; i < named.NumMethods(); i++ {
					ms[named.Method(i).Name()] = true
				}
				if ms["Write"] && ms["Sum"] && ms["Sum64"] {
					cp.typ = named
				}
			}
		}
	}
	key := func(s string) string { return cp.short + "/" + s }
	if cp.typ == nil {
		c.Undecidedf("R2.state", key("type"), token.NoPos, "no type with Write/Sum/Sum64 in %s", cp.path)
		return
	}
	tname := cp.typ.Obj().Name()
	sum64, write, sum := c.Func(cp.path, tname, "Sum64"), c.Func(cp.path, tname, "Write"), c.Func(cp.path, tname, "Sum")
	if sum64 == nil || write == nil || sum == nil {
		return
	}
	// Sum64 returns the running field, possibly through a local
	var rets []*ast.ReturnStmt
	core.Inspect(sum64.Decl.Body, func(n ast.Node) bool {
		if r, ok := n.(*ast.ReturnStmt); ok {
			rets = append(rets, r)
		}
		return true
	})
	if len(rets) == 1 && len(rets[0].Results) == 1 {
		cp.field = core.FieldOf(info, origin(info, sum64.Decl.Body, rets[0].Results[0]))
	}
	if cp.field == nil {
		c.Undecidedf("R2.state", key("Sum64"), sum64.Decl.Pos(), "Sum64 does not simply return a field")
		return
	}
	c.Okf("R2.state", key("Sum64"), sum64.Decl.Pos(), "Sum64 returns the running field %s", cp.field.Name())
	F := cp.field.Name()
	// Write continues from the field
	var wparam types.Object
	if ps := write.Obj.Type().(*types.Signature).Params(); ps.Len() == 1 {
		wparam = ps.At(0)
	}
	stepLHS := st.Decl.Body // find the step assignment's target again
	var lhs ast.Expr
	ast.Inspect(stepLHS, func(n ast.Node) bool {
		if as, ok := n.(*ast.AssignStmt); ok && len(as.Lhs) == 1 {
			ast.Inspect(as.Rhs[0], func(m ast.Node) bool {
				if ie, ok := m.(*ast.IndexExpr); ok {
					if at, ok := info.TypeOf(ie.X).Underlying().(*types.Array); ok && at.Len() == 256 {
						lhs = as.Lhs[0]
					}
				}
				return true
			})
		}
		return true
	})
	calls := core.Calls(write.Decl.Body, info, func(_ *ast.CallExpr, o types.Object) bool { return o == st.Obj })
	wkey := key("Write-continues")
	switch {
	case st.Obj == write.Obj && wparam != nil && len(calls) == 0:
		// the byte loop lives in Write itself (R2.step/<fn>/loop ties it to Write's argument)
		if core.FieldOf(info, lhs) == cp.field || localCopyOf(info, st, lhs, cp.field) {
			c.Okf("R2.state", wkey, write.Decl.Pos(), "Write applies the step itself, updating the running field in place (digest independent of chunking)")
		} else {
			c.Undecidedf("R2.state", wkey, write.Decl.Pos(), "cannot see that the step in Write starts from and ends in the running field")
		}
	case len(calls) != 1 || wparam == nil:
		c.Undecidedf("R2.state", wkey, write.Decl.Pos(), "Write does not call the step function exactly once")
	case core.FieldOf(info, lhs) == cp.field || localCopyOf(info, st, lhs, cp.field): // method updating the field in place (possibly through a local copy)
		if len(calls[0].Args) == 1 && objOf(info, calls[0].Args[0]) == wparam {
			c.Okf("R2.state", wkey, calls[0].Pos(), "Write feeds exactly its argument to the step that updates the running field in place (digest independent of chunking)")
		} else {
			c.Undecidedf("R2.state", wkey, calls[0].Pos(), "Write does not pass its argument unchanged to the step")
		}
	default: // pure function step(crc, p) returning the new value
		sig := st.Obj.Type().(*types.Signature)
		retOK := true
		core.Inspect(st.Decl.Body, func(n ast.Node) bool {
			if r, ok := n.(*ast.ReturnStmt); ok && (len(r.Results) != 1 || !pat.Same(info, strip(info, r.Results[0]), lhs)) {
				retOK = false
			}
			return true
		})
		if sig.Params().Len() != 2 || objOf(info, lhs) != sig.Params().At(0) || !retOK {
			c.Undecidedf("R2.state", wkey, write.Decl.Pos(), "step function is neither an in-place field update nor step(crc, p) returning crc")
			break
		}
		// d.F = step(seed, p), the new value possibly named first
		var as *ast.AssignStmt
		ast.Inspect(write.Decl.Body, func(n ast.Node) bool {
			if a, ok := n.(*ast.AssignStmt); ok && len(a.Lhs) == 1 && len(a.Rhs) == 1 && a.Tok == token.ASSIGN && core.FieldOf(info, a.Lhs[0]) == cp.field {
				if origin(info, write.Decl.Body, a.Rhs[0]) == ast.Expr(calls[0]) {
					as = a
				}
			}
			return true
		})
		if as == nil || len(calls[0].Args) != 2 || objOf(info, calls[0].Args[1]) != wparam {
			c.Undecidedf("R2.state", wkey, write.Decl.Pos(), "Write does not store step(..., p) into the running field")
			break
		}
		seed := calls[0].Args[0]
		cont := core.FieldOf(info, origin(info, write.Decl.Body, seed)) == cp.field &&
			pat.Same(info, ast.Unparen(origin(info, write.Decl.Body, seed)).(*ast.SelectorExpr).X, ast.Unparen(as.Lhs[0]).(*ast.SelectorExpr).X)
		if _, isC := uint64Const(info, seed); !cont && !isC {
			c.Undecidedf("R2.state", wkey, as.Pos(), "unrecognised start value %s of the step in Write", c.Src(seed))
			break
		}
		c.Check("R2.state", wkey, as.Pos(), cont, fmt.Sprintf("Write must continue from the running field (found start value %s): restarting makes the digest depend on how the bytes are split across writes (a file read in 4 KiB chunks gets the CRC of its last chunk)", c.Src(seed)))
	}
	// zero start values: composite literals, one-shot functions, other writes of the field
	zero := true
	var why []string
	und := false
	for _, fn := range funcsOf(cp.pk) {
		ast.Inspect(fn.Decl.Body, func(n ast.Node) bool {
			switch x := n.(type) {
			case *ast.CompositeLit:
				if t := info.TypeOf(x); t != nil && types.Identical(t, cp.typ) {
					cp.newFns[fn.Obj] = true
					for i, el := range x.Elts {
						v := el
						if kv, ok := el.(*ast.KeyValueExpr); ok {
							if objOf(info, kv.Key) != cp.field {
								continue
							}
							v = kv.Value
						} else if cp.typ.Underlying().(*types.Struct).Field(i) != cp.field {
							continue
						}
						if k, isC := uint64Const(info, v); !isC {
							und = true
						} else if k != 0 {
							zero = false
							why = append(why, fmt.Sprintf("%s creates the digest with %s = %#x", fn.Decl.Name.Name, F, k))
						}
					}
				}
			case *ast.CallExpr:
				if b, isB := core.Callee(info, x).(*types.Builtin); isB && b.Name() == "new" && len(x.Args) == 1 {
					if t := info.TypeOf(x.Args[0]); t != nil && types.Identical(t, cp.typ) {
						cp.newFns[fn.Obj] = true // new(T): the zero digest
					}
				}
				if core.CalleeFunc(info, x) == st.Obj && fn.Obj != write.Obj && len(x.Args) == 2 {
					if k, isC := uint64Const(info, x.Args[0]); !isC {
						und = true
					} else if k != 0 {
						zero = false
						why = append(why, fmt.Sprintf("%s starts the step from %#x", fn.Decl.Name.Name, k))
					} else {
						cp.digestFns[fn.Obj] = true
					}
				}
			case *ast.AssignStmt:
				for i, l := range x.Lhs {
					if core.FieldOf(info, l) == cp.field && fn.Obj != write.Obj && fn.Obj != st.Obj {
						if k, isC := uint64Const(info, orIdent(core.AssignedTo(x, i))); !isC || x.Tok != token.ASSIGN {
							und = true
						} else if k != 0 {
							zero = false
							why = append(why, fmt.Sprintf("%s sets %s = %#x", fn.Decl.Name.Name, F, k))
						}
					}
				}
			}
			return true
		})
	}
	switch {
	case !zero:
		c.Failf("R2.state", key("zero-init"), cp.typ.Obj().Pos(), "the Redis CRC-64 starts from 0; %s: every checksum computed from that start differs from Redis'", strings.Join(why, "; "))
	case und || len(cp.newFns) == 0:
		c.Undecidedf("R2.state", key("zero-init"), cp.typ.Obj().Pos(), "cannot see all start values of the digest in %s", cp.path)
	default:
		c.Okf("R2.state", key("zero-init"), cp.typ.Obj().Pos(), "every constructor, one-shot function and Reset starts from 0")
	}
	sumLE(c, cp, sum, key("Sum-little-endian"))
}

func sumLE(c *core.Ctx, cp *crcPkg, sum *core.Fn, key string) {
	info := cp.pk.TypesInfo
	isVal := func(e ast.Expr) bool { // the running value: d.F, d.Sum64() or a local holding it
		e = origin(info, sum.Decl.Body, e)
		if core.FieldOf(info, e) == cp.field {
			return true
		}
		call, ok := e.(*ast.CallExpr)
		return ok && core.CalleeFunc(info, call) != nil && core.CalleeFunc(info, call).Name() == "Sum64" && len(call.Args) == 0
	}
	for _, call := range core.Calls(sum.Decl.Body, info, func(call *ast.CallExpr, o types.Object) bool {
		f, _ := o.(*types.Func)
		return f != nil && f.Name() == "PutUint64" && f.Pkg() != nil && f.Pkg().Path() == "encoding/binary"
	}) {
		order := ""
		if sel, ok := ast.Unparen(call.Fun).(*ast.SelectorExpr); ok {
			if o := core.ObjOf(info, sel.X); o != nil {
				order = o.Name()
			}
		}
		if order != "LittleEndian" && order != "BigEndian" || len(call.Args) != 2 || !isVal(call.Args[1]) {
			c.Undecidedf("R2.state", key, call.Pos(), "unrecognised PutUint64 use in Sum")
			return
		}
		c.Check("R2.state", key, call.Pos(), order == "LittleEndian", "Sum must encode the CRC little-endian as Redis does (found binary."+order+"): trailers written with it are refused by Redis and by the tool's own checkers")
		return
	}
	// var buf [8]byte; for i := range buf { buf[i] = byte(s >> (8*i)) }; append(in, buf[:]...)
	idxForm := false
	core.Inspect(sum.Decl.Body, func(n ast.Node) bool {
		var iv types.Object
		var body *ast.BlockStmt
		switch l := n.(type) {
		case *ast.RangeStmt:
			if at, ok := info.TypeOf(l.X).Underlying().(*types.Array); ok && at.Len() == 8 && l.Key != nil && l.Value == nil {
				iv, body = objOf(info, l.Key), l.Body
			}
		case *ast.ForStmt:
			if v, init, bound, op, step, ok := forHeader8(info, l); ok && step == 1 && init == 0 && (op == token.LSS && bound == 8 || op == token.LEQ && bound == 7) {
				iv, body = v, l.Body
			}
		}
		if iv == nil || len(body.List) != 1 {
			return true
		}
		as, ok := body.List[0].(*ast.AssignStmt)
		if !ok || len(as.Lhs) != 1 || len(as.Rhs) != 1 {
			return true
		}
		ie, ok := ast.Unparen(as.Lhs[0]).(*ast.IndexExpr)
		if !ok || objOf(info, strip(info, ie.Index)) != iv || width(info, ast.Unparen(as.Rhs[0])) != 8 {
			return true
		}
		sh, ok := strip(info, as.Rhs[0]).(*ast.BinaryExpr)
		if !ok || sh.Op != token.SHR || !isVal(sh.X) {
			return true
		}
		// shift amount 8*i (or i*8, i<<3)
		amt, ok := strip(info, sh.Y).(*ast.BinaryExpr)
		if !ok {
			return true
		}
		k, isC := core.IntConst(info, amt.Y)
		other := amt.X
		if !isC {
			k, isC = core.IntConst(info, amt.X)
			other = amt.Y
		}
		if isC && objOf(info, strip(info, other)) == iv && (amt.Op == token.MUL && k == 8 || amt.Op == token.SHL && k == 3 && other == amt.X) {
			// the whole array is appended in index order
			if n, _ := pat.Expr("append(_in, _buf[:]...)").Find(info, sum.Decl.Body, pat.Binds{"_buf": ie.X}); n != nil {
				idxForm = true
			}
		}
		return true
	})
	if idxForm {
		c.Okf("R2.state", key, sum.Decl.Pos(), "Sum stores byte i of the CRC as crc >> 8*i and appends the 8 bytes in index order (little-endian)")
		return
	}
	// for k := 0; k < 64; k += 8 { in = append(in, byte(s>>k)) }
	var loopKs []int64
	loopForm := false
	core.Inspect(sum.Decl.Body, func(n ast.Node) bool {
		f, ok := n.(*ast.ForStmt)
		if !ok || f.Init == nil || f.Cond == nil || f.Post == nil {
			return true
		}
		init, ok1 := f.Init.(*ast.AssignStmt)
		cond, ok2 := ast.Unparen(f.Cond).(*ast.BinaryExpr)
		post, ok3 := f.Post.(*ast.AssignStmt)
		if !ok1 || !ok2 || !ok3 || len(init.Lhs) != 1 || len(init.Rhs) != 1 || len(post.Lhs) != 1 || len(post.Rhs) != 1 {
			return true
		}
		kv := objOf(info, init.Lhs[0])
		k0, c0 := core.IntConst(info, init.Rhs[0])
		lim, c1 := core.IntConst(info, cond.Y)
		stp, c2 := core.IntConst(info, post.Rhs[0])
		if kv == nil || objOf(info, cond.X) != kv || objOf(info, post.Lhs[0]) != kv || !c0 || !c1 || !c2 || post.Tok != token.ADD_ASSIGN || stp <= 0 || cond.Op != token.LSS && cond.Op != token.LEQ {
			return true
		}
		// the body is exactly one append of byte(value >> k)
		if len(f.Body.List) != 1 {
			return true
		}
		var app *ast.CallExpr
		ast.Inspect(f.Body, func(m ast.Node) bool {
			if call, ok := m.(*ast.CallExpr); ok {
				if b, isB := core.Callee(info, call).(*types.Builtin); isB && b.Name() == "append" && len(call.Args) == 2 && !call.Ellipsis.IsValid() {
					app = call
				}
			}
			return true
		})
		if app == nil || width(info, ast.Unparen(app.Args[1])) != 8 {
			return true
		}
		sh, isSh := strip(info, app.Args[1]).(*ast.BinaryExpr)
		if !isSh || sh.Op != token.SHR || !isVal(sh.X) || objOf(info, strip(info, sh.Y)) != kv {
			return true
		}
		loopForm = true
		for k := k0; (cond.Op == token.LSS && k < lim || cond.Op == token.LEQ && k <= lim) && len(loopKs) < 16; k += stp {
			loopKs = append(loopKs, k)
		}
		return true
	})
	if loopForm {
		le := len(loopKs) == 8
		for i, k := range loopKs {
			if k != int64(8*i) {
				le = false
			}
		}
		c.Check("R2.state", key, sum.Decl.Pos(), le, fmt.Sprintf("Sum must append the CRC bytes least-significant first (shifts 0,8,...,56; the loop produces %v): trailers written with it are refused by Redis and by the tool's own checkers", loopKs))
		return
	}
	// append(in, byte(s>>k)) eight times, k = 0, 8, ..., 56
	var ks []int64
	okShape := true
	core.Inspect(sum.Decl.Body, func(n ast.Node) bool {
		call, ok := n.(*ast.CallExpr)
		if b, isB := core.Callee(info, orCall(call)).(*types.Builtin); !ok || !isB || b.Name() != "append" || len(call.Args) != 2 || call.Ellipsis.IsValid() {
			return true
		}
		arg := ast.Unparen(call.Args[1])
		if width(info, arg) != 8 {
			okShape = false
			return true
		}
		if x, op, k, ok := shiftOf(info, arg); ok && op == token.SHR && isVal(x) {
			ks = append(ks, k)
		} else if isVal(strip(info, arg)) {
			ks = append(ks, 0)
		} else {
			okShape = false
		}
		return true
	})
	if !okShape || len(ks) != 8 {
		c.Undecidedf("R2.state", key, sum.Decl.Pos(), "unrecognised encoding of the CRC in Sum")
		return
	}
	le := true
	for i, k := range ks {
		if k != int64(8*i) {
			le = false
		}
	}
	c.Check("R2.state", key, sum.Decl.Pos(), le, fmt.Sprintf("Sum must append the CRC bytes least-significant first (shifts 0,8,...,56; found %v): trailers written with it are refused by Redis and by the tool's own checkers", ks))
}

func orCall(c *ast.CallExpr) *ast.CallExpr {
	if c == nil {
		return &ast.CallExpr{Fun: &ast.Ident{Name: "_"}}
	}
	return c
}

// localCopyOf: the step's accumulator is a local that is loaded from the
// running field before the loop and stored back into it after the loop, on
// the only path through the function (acc := d.F; for ... { acc = step }; d.F = acc).
func localCopyOf(info *types.Info, st *core.Fn, lhs ast.Expr, field *types.Var) bool {
	acc := objOf(info, lhs)
	if acc == nil || st.Obj.Type().(*types.Signature).Recv() == nil {
		return false
	}
	rhs, other := defsOf(info, st.Decl.Body, acc)
	loads := 0
	for _, r := range rhs {
		if r != nil && core.FieldOf(info, strip(info, r)) == field {
			loads++
		}
	}
	if other != 0 || len(rhs) != 2 || loads != 1 {
		return false
	}
	// top-level shape: ..., load, loop, store as the last statement; no return anywhere
	// (a closing top-level return after the store is not part of the shape)
	list := st.Decl.Body.List
	var closing ast.Stmt
	if n := len(list); n > 0 {
		if r, ok := list[n-1].(*ast.ReturnStmt); ok {
			closing, list = r, list[:n-1]
			for _, res := range r.Results {
				ast.Inspect(res, func(m ast.Node) bool {
					if _, isCall := m.(*ast.CallExpr); isCall {
						if tv, isT := info.Types[m.(*ast.CallExpr).Fun]; !isT || !tv.IsType() {
							if b, isB := core.Callee(info, m.(*ast.CallExpr)).(*types.Builtin); !isB || b.Name() != "len" {
								closing = nil // the result is computed by a call: not followed
							}
						}
					}
					return true
				})
			}
			if closing == nil {
				return false
			}
		}
	}
	hasRet := false
	ast.Inspect(st.Decl.Body, func(n ast.Node) bool {
		if r, ok := n.(*ast.ReturnStmt); ok && ast.Stmt(r) != closing {
			hasRet = true
		}
		return true
	})
	if hasRet || len(list) < 3 {
		return false
	}
	last, ok := list[len(list)-1].(*ast.AssignStmt)
	if !ok || len(last.Lhs) != 1 || len(last.Rhs) != 1 || last.Tok != token.ASSIGN {
		return false
	}
	if core.FieldOf(info, last.Lhs[0]) != field || objOf(info, strip(info, last.Rhs[0])) != acc {
		return false
	}
	switch list[len(list)-2].(type) {
	case *ast.ForStmt, *ast.RangeStmt:
		return true
	}
	return false
}

// forHeader8 reads `for v := init; v < bound; v += step` with constant init, bound and step.
func forHeader8(info *types.Info, l *ast.ForStmt) (v types.Object, init, bound int64, op token.Token, step int64, ok bool) {
	as, ok1 := l.Init.(*ast.AssignStmt)
	cond, ok2 := ast.Unparen(orIdent(l.Cond)).(*ast.BinaryExpr)
	if !ok1 || !ok2 || len(as.Lhs) != 1 || len(as.Rhs) != 1 || l.Post == nil {
		return nil, 0, 0, 0, 0, false
	}
	v = objOf(info, as.Lhs[0])
	init, okI := core.IntConst(info, as.Rhs[0])
	bound, okB := core.IntConst(info, cond.Y)
	if v == nil || !okI || !okB || objOf(info, strip(info, cond.X)) != v {
		return nil, 0, 0, 0, 0, false
	}
	switch p := l.Post.(type) {
	case *ast.IncDecStmt:
		if p.Tok == token.INC && objOf(info, p.X) == v {
			step = 1
		}
	case *ast.AssignStmt:
		if p.Tok == token.ADD_ASSIGN && len(p.Lhs) == 1 && objOf(info, p.Lhs[0]) == v {
			step, _ = core.IntConst(info, p.Rhs[0])
		}
	}
	return v, init, bound, cond.Op, step, step > 0
}
