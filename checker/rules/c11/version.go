package c11

import (
	"go/ast"
	"go/token"
	"go/types"
	"rscheck/core"
)

// versionConfined: every place the decoded trailer version goes is visible in
// the checker itself and is not a test: it is named by locals, returned, printed
// by a function outside the module or dropped. When the value is stored in a
// field or an element, handed to a function of the module, switched on, captured
// by a closure, or decoded in a helper that does not hand it back as a plain
// result, a test may sit where this rule does not look, and "never tested"
// cannot be concluded.
func (v *verif) versionConfined(kinds map[string][]access, valRole func(ast.Expr) string) bool {
	body := v.fn.Decl.Body
	var starts []ast.Node
	for _, k := range []string{"ver-slice", "ver-lo", "ver-hi"} {
		for _, a := range kinds[k] {
			n := ast.Node(a.e)
			if a.call != nil {
				n = a.call
			}
			if core.PathTo(body, n) == nil {
				n = nil // read inside a helper: the locals receiving its "ver" results stand for it
			}
			starts = append(starts, n)
		}
	}
	inHelper := false
	for _, n := range starts {
		if n == nil {
			inHelper = true
		}
	}
	if inHelper {
		found := false
		ast.Inspect(body, func(n ast.Node) bool {
			if id, ok := n.(*ast.Ident); ok && v.info.Defs[id] != nil && valRole(id) == "ver" {
				found = true
				starts = append(starts, id)
			}
			return true
		})
		if !found {
			return false
		}
	}
	seen := map[types.Object]bool{}
	var local func(o types.Object) bool
	var up func(n ast.Node) bool
	local = func(o types.Object) bool {
		if o == nil || seen[o] {
			return o != nil
		}
		seen[o] = true
		if vr, isVar := o.(*types.Var); !isVar || vr.IsField() || vr.Pkg() == nil || vr.Parent() == vr.Pkg().Scope() {
			return false
		}
		ok := true
		ast.Inspect(body, func(n ast.Node) bool {
			if _, isLit := n.(*ast.FuncLit); isLit {
				lit := false
				ast.Inspect(n, func(m ast.Node) bool {
					if id, isId := m.(*ast.Ident); isId && v.info.Uses[id] == o {
						lit = true
					}
					return true
				})
				if lit {
					ok = false
				}
				return false
			}
			if id, isId := n.(*ast.Ident); isId && v.info.Uses[id] == o && ok {
				ok = up(id)
			}
			return true
		})
		return ok
	}
	up = func(n ast.Node) bool {
		path := core.PathTo(body, n)
		for i := len(path) - 2; i >= 0; i-- {
			child := path[i+1]
			switch x := path[i].(type) {
			case *ast.ParenExpr:
			case *ast.BinaryExpr:
				switch x.Op {
				case token.EQL, token.NEQ, token.LSS, token.GTR, token.LEQ, token.GEQ, token.LAND, token.LOR:
					return false // a test after all
				}
			case *ast.CallExpr:
				if tv, isT := v.info.Types[x.Fun]; isT && tv.IsType() {
					continue
				}
				if x.Fun == child {
					return false
				}
				if _, dec := byteOrder(v.info, x, "Uint16"); dec {
					continue
				}
				f := core.CalleeFunc(v.info, x)
				if f == nil || f.Pkg() == nil || v.e.c.FnOf(f) != nil {
					return false // a function whose body the program defines may test it
				}
				return true // printed / formatted by a library function
			case *ast.ReturnStmt, *ast.ExprStmt:
				return true
			case *ast.AssignStmt:
				if x.Tok != token.ASSIGN && x.Tok != token.DEFINE || len(x.Lhs) != len(x.Rhs) {
					return false
				}
				for j, r := range x.Rhs {
					if r == child {
						if id, isId := x.Lhs[j].(*ast.Ident); isId && id.Name == "_" {
							return true
						}
						return local(objOf(v.info, x.Lhs[j]))
					}
				}
				for _, l := range x.Lhs {
					if l == child {
						return true // being (re)defined, not read
					}
				}
				return false
			case *ast.ValueSpec:
				for j, r := range x.Values {
					if r == child && j < len(x.Names) {
						return local(v.info.Defs[x.Names[j]])
					}
				}
				return false
			default:
				return false
			}
		}
		return false
	}
	for _, n := range starts {
		if n == nil {
			continue
		}
		if id, isId := n.(*ast.Ident); isId && v.info.Defs[id] != nil {
			if !local(v.info.Defs[id]) {
				return false
			}
			continue
		}
		if !up(n) {
			return false
		}
	}
	return true
}

// shiftApplied: the constant left shift applied to the byte e before it is
// combined with the other version byte. A byte that is also moved to the right
// is not "assembled" in this sense (see placement).
func (v *verif) shiftApplied(e ast.Expr) (int64, bool) {
	k, lost, _, ok := v.placement(e)
	if lost != 0 {
		return 0, false
	}
	return k, ok
}

// placement follows the byte e up to the operator that combines it with the
// other pieces of an integer (| + ^) and says where it lands: the value that
// reaches the combining operator is (e >> lost) << k. Left moves are `<< c` and
// `* 2^c`, right moves `>> c` and `/ 2^c` (the byte is unsigned, so the quotient
// is the shift); conversions are looked through. A right move by more than the
// left moves before it drops that many low bits of the byte for good: lost > 0
// means the byte does not contribute all of its bits, whatever follows. right is
// the first right-moving operator seen (for the report). Anything else on the
// way (a mask, a call, a variable holding the byte) is not a placement: !ok.
func (v *verif) placement(e ast.Expr) (k, lost int64, right *ast.BinaryExpr, ok bool) {
	path := core.PathTo(v.fn.Decl.Body, e)
	pow2 := func(x ast.Expr) (int64, bool) {
		m, isC := core.IntConst(v.info, x)
		if !isC || m <= 0 || m&(m-1) != 0 {
			return 0, false
		}
		n := int64(0)
		for ; m > 1; m >>= 1 {
			n++
		}
		return n, true
	}
	down := func(x *ast.BinaryExpr, s int64) {
		if s > k {
			lost += s - k
			k = 0
			if right == nil {
				right = x
			}
		} else {
			k -= s
		}
	}
	for i := len(path) - 2; i >= 0; i-- {
		child := path[i+1]
		switch x := path[i].(type) {
		case *ast.ParenExpr:
		case *ast.CallExpr:
			if tv, isT := v.info.Types[x.Fun]; !isT || !tv.IsType() {
				return 0, 0, nil, false
			}
		case *ast.BinaryExpr:
			switch x.Op {
			case token.SHL, token.SHR:
				s, isC := core.IntConst(v.info, x.Y)
				if !isC || s < 0 || x.X != child {
					return 0, 0, nil, false
				}
				if x.Op == token.SHL {
					k += s
				} else {
					down(x, s)
				}
			case token.MUL: // x * 256 is x << 8
				other := x.Y
				if x.Y == child {
					other = x.X
				}
				s, isP := pow2(other)
				if !isP {
					return 0, 0, nil, false
				}
				k += s
			case token.QUO: // x / 256 is x >> 8 for the unsigned byte
				s, isP := pow2(x.Y)
				if !isP || x.X != child {
					return 0, 0, nil, false
				}
				down(x, s)
			case token.OR, token.ADD, token.XOR:
				return k, lost, right, true
			default:
				return 0, 0, nil, false
			}
		default:
			return 0, 0, nil, false
		}
	}
	return 0, 0, nil, false
}

// hashObject: call is h.Write(x) on a local h that holds a fresh digest from a
// checked constructor and is written exactly once; it returns the h.Sum64()
// call that yields the digest of x, nil otherwise.
func (v *verif) hashObject(call *ast.CallExpr) *ast.CallExpr {
	sel, ok := ast.Unparen(call.Fun).(*ast.SelectorExpr)
	if !ok || sel.Sel.Name != "Write" || len(call.Args) != 1 {
		return nil
	}
	h := objOf(v.info, sel.X)
	if h == nil {
		return nil
	}
	rhs, other := defsOf(v.info, v.fn.Decl.Body, h)
	if len(rhs) != 1 || other != 0 || rhs[0] == nil {
		return nil
	}
	if nc, ok := ast.Unparen(rhs[0]).(*ast.CallExpr); !ok || !v.e.isNew(core.CalleeFunc(v.info, nc)) {
		return nil
	}
	writes, var64 := 0, (*ast.CallExpr)(nil)
	escapes := false
	ast.Inspect(v.fn.Decl.Body, func(n ast.Node) bool {
		c, ok := n.(*ast.CallExpr)
		if !ok {
			return true
		}
		if s2, ok := ast.Unparen(c.Fun).(*ast.SelectorExpr); ok && objOf(v.info, s2.X) == h {
			switch s2.Sel.Name {
			case "Write":
				writes++
			case "Sum64":
				var64 = c
			default:
				escapes = true
			}
		}
		for _, a := range c.Args {
			if objOf(v.info, a) == h {
				escapes = true
			}
		}
		return true
	})
	if writes != 1 || escapes {
		return nil
	}
	return var64
}
