package c11

import (
	"fmt"
	"go/ast"
	"go/token"
	"go/types"
	"strings"

	"rscheck/cfgq"
	"rscheck/core"
)

// ---------------------------------------------------------------------------
// R5 trailer creation

func trailers(e *env) {
	c := e.c
	type written struct {
		who string
		val int64
		ok  bool
		pos token.Pos
	}
	var ws []written
	for _, a := range [][4]string{{pkgRdb, "", "createValueDump", ""}, {pkgCupRdb, "Encoder", "EncodeDumpFooter", "NewEncoder"}} {
		fn := c.Func(a[0], a[1], a[2])
		if fn == nil {
			continue
		}
		var ctor *core.Fn
		if a[3] != "" {
			if ctor = c.Func(a[0], "", a[3]); ctor == nil {
				continue
			}
		}
		shifts(c, fn, fn.Obj.Pkg().Name(), true)
		if vexpr := trailer(e, fn, ctor); vexpr != nil {
			w := written{who: fn.Decl.Name.Name, pos: vexpr.Pos()}
			x := strip(fn.Pkg.TypesInfo, vexpr)
			if k, ok := core.IntConst(fn.Pkg.TypesInfo, x); ok {
				w.val, w.ok = k, true
			} else if o := core.ObjOf(fn.Pkg.TypesInfo, x); o != nil {
				w.val, w.ok = valueOf(c, o)
			}
			ws = append(ws, w)
		}
	}
	c.Expect("R5.trailer", 10)
	for _, w := range ws {
		for _, b := range e.bounds {
			key := w.who + "-vs-" + b.checker
			if !w.ok || !b.known {
				c.Undecidedf("R5.version", key, w.pos, "version written by %s or bound of %s is not a module-wide constant", w.who, b.checker)
				continue
			}
			rel := "<="
			if b.exact {
				rel = "=="
			}
			c.Check("R5.version", key, w.pos, b.exact && w.val == b.val || !b.exact && w.val <= b.val,
				fmt.Sprintf("%s writes trailer version %d, %s accepts version %s %d: every payload the tool emits must verify under its own checkers", w.who, w.val, b.checker, rel, b.val))
		}
	}
	c.Expect("R5.version", 4)
}

// trailer checks one footer writer and returns the version expression written.
func trailer(e *env, fn, ctor *core.Fn) ast.Expr {
	c := e.c
	info := fn.Pkg.TypesInfo
	name := fn.Decl.Name.Name
	key := func(s string) string { return name + "/" + s }
	ref := func(x ast.Expr) types.Object { // local variable or struct field
		x = ast.Unparen(x)
		if u, ok := x.(*ast.UnaryExpr); ok && u.Op == token.AND {
			x = ast.Unparen(u.X)
		}
		if f := core.FieldOf(info, x); f != nil {
			return f
		}
		return objOf(info, x)
	}
	// sink = io.MultiWriter(..., digest, ...)
	var sink, dig types.Object
	var under []types.Object
	where := fn
	if ctor != nil {
		where = ctor
	}
	ast.Inspect(where.Decl.Body, func(n ast.Node) bool {
		as, ok := n.(*ast.AssignStmt)
		if !ok || len(as.Lhs) != 1 || len(as.Rhs) != 1 {
			return true
		}
		call, ok := ast.Unparen(as.Rhs[0]).(*ast.CallExpr)
		if !ok || !core.IsFunc(core.CalleeFunc(info, call), "io", "", "MultiWriter") {
			return true
		}
		sink = ref(as.Lhs[0])
		for _, a := range call.Args {
			o := ref(a)
			if o == nil {
				continue
			}
			fromNew := false
			ast.Inspect(where.Decl.Body, func(m ast.Node) bool {
				var l, r ast.Expr
				switch s := m.(type) {
				case *ast.AssignStmt:
					if len(s.Lhs) == 1 && len(s.Rhs) == 1 {
						l, r = s.Lhs[0], s.Rhs[0]
					}
				case *ast.KeyValueExpr:
					l, r = s.Key, s.Value
				}
				if l != nil && (ref(l) == o || objOf(info, l) == o) {
					if nc, ok := ast.Unparen(r).(*ast.CallExpr); ok && e.isNew(core.CalleeFunc(info, nc)) {
						fromNew = true
					}
				}
				return true
			})
			if fromNew {
				dig = o
			} else {
				under = append(under, o)
			}
		}
		return true
	})
	if sink == nil || dig == nil {
		c.Undecidedf("R5.trailer", key("tee-digest"), fn.Decl.Pos(), "cannot see %s writing through io.MultiWriter(out, digest) with a digest from a checked constructor", name)
		return nil
	}
	c.Okf("R5.trailer", key("tee-digest"), fn.Decl.Pos(), "%s writes through a MultiWriter that feeds %s, a digest from a constructor checked under R2", name, dig.Name())
	g := cfgq.Of(c.Program, fn)
	// classify writes
	type wr struct {
		call  *ast.CallExpr
		kind  string // version checksum data
		order string
		val   ast.Expr
	}
	classify := func(call *ast.CallExpr) *wr {
		f := core.CalleeFunc(info, call)
		if f == nil {
			return nil
		}
		if core.IsFunc(f, "encoding/binary", "", "Write") && len(call.Args) == 3 && ref(call.Args[0]) == sink {
			w := &wr{call: call, kind: "data", val: call.Args[2]}
			if o := core.ObjOf(info, call.Args[1]); o != nil {
				w.order = o.Name()
			}
			if sc, ok := ast.Unparen(call.Args[2]).(*ast.CallExpr); ok && core.CalleeFunc(info, sc) != nil && core.CalleeFunc(info, sc).Name() == "Sum64" {
				if sel, ok := ast.Unparen(sc.Fun).(*ast.SelectorExpr); ok && ref(sel.X) == dig {
					w.kind = "checksum"
					return w
				}
			}
			if width(info, call.Args[2]) == 16 {
				w.kind = "version"
			}
			return w
		}
		if sel, ok := ast.Unparen(call.Fun).(*ast.SelectorExpr); ok && f.Name() == "Write" && ref(sel.X) == sink && len(call.Args) == 1 {
			w := &wr{call: call, kind: "data", order: "LittleEndian"}
			if sc, ok := ast.Unparen(call.Args[0]).(*ast.CallExpr); ok && core.CalleeFunc(info, sc) != nil && core.CalleeFunc(info, sc).Name() == "Sum" {
				if s2, ok := ast.Unparen(sc.Fun).(*ast.SelectorExpr); ok && ref(s2.X) == dig {
					w.kind = "checksum" // little-endian by R2.state/Sum-little-endian
				}
			}
			return w
		}
		return nil
	}
	var ver, sum *wr
	nver, nsum := 0, 0
	isKind := func(kinds ...string) func(ast.Node) bool {
		return func(n ast.Node) bool {
			for _, call := range cfgq.ExecCalls(n) {
				if w := classify(call); w != nil {
					for _, k := range kinds {
						if w.kind == k {
							return true
						}
					}
				}
			}
			return false
		}
	}
	core.Inspect(fn.Decl.Body, func(n ast.Node) bool {
		if call, ok := n.(*ast.CallExpr); ok {
			if w := classify(call); w != nil && w.kind == "version" {
				ver = w
				nver++
			} else if w != nil && w.kind == "checksum" {
				sum = w
				nsum++
			}
		}
		return true
	})
	if nver != 1 || nsum != 1 {
		c.Undecidedf("R5.trailer", key("layout"), fn.Decl.Pos(), "expected one 16-bit version write and one checksum write through the MultiWriter, found %d and %d", nver, nsum)
		return nil
	}
	if !(ver.order == "LittleEndian" || ver.order == "BigEndian") || !(sum.order == "LittleEndian" || sum.order == "BigEndian") {
		c.Undecidedf("R5.trailer", key("version-le16"), ver.call.Pos(), "byte order of the trailer writes is not one of binary.LittleEndian / binary.BigEndian")
		return ver.val
	}
	c.Check("R5.trailer", key("version-le16"), ver.call.Pos(), ver.order == "LittleEndian", "the trailer version must be written little-endian (found binary."+ver.order+"): Redis and the tool's own checkers read it as a different number and refuse the payload")
	c.Check("R5.trailer", key("checksum-le64"), sum.call.Pos(), sum.order == "LittleEndian", "the trailer CRC must be written little-endian (found binary."+sum.order+"): the payload is refused by RESTORE and by the tool's own checkers")
	sp, _ := g.Find(sum.call)
	vp, _ := g.Find(ver.call)
	dom, w1 := g.Dominated(sp, isKind("version"))
	w2 := g.Reaches(sp, isKind("version", "data", "checksum"))
	w3 := g.Reaches(vp, isKind("data", "version"))
	c.Check("R5.trailer", key("layout"), sum.call.Pos(), dom && w2 == nil && w3 == nil,
		"the payload must end in version(2) then CRC(8), the CRC being taken after the version went through the digest and nothing written after it: otherwise the checksum does not cover payload+version and RESTORE / verifyDump refuse it", append(append(w1, w2...), w3...)...)
	// nothing bypasses the digest
	var bypass []string
	core.Inspect(fn.Decl.Body, func(n ast.Node) bool {
		call, ok := n.(*ast.CallExpr)
		if !ok {
			return true
		}
		sel, isSel := ast.Unparen(call.Fun).(*ast.SelectorExpr)
		for _, u := range under {
			if isSel && ref(sel.X) == u && strings.HasPrefix(sel.Sel.Name, "Write") {
				bypass = append(bypass, c.Src(call))
			}
			for _, a := range call.Args {
				if ref(a) == u && classify(call) == nil && !core.IsFunc(core.CalleeFunc(info, call), "io", "", "MultiWriter") {
					bypass = append(bypass, c.Src(call))
				}
			}
		}
		return true
	})
	c.Check("R5.trailer", key("no-bypass"), fn.Decl.Pos(), len(bypass) == 0,
		"every byte of the payload must pass through the MultiWriter so that the digest covers it; direct writes to the output: "+strings.Join(bypass, ", "))
	return ver.val
}
