package c11

import (
	"fmt"
	"go/ast"
	"go/token"
	"go/types"
	"strings"

	"rscheck/cfgq"
	"rscheck/core"
	"rscheck/rules/c01"
)

// ---------------------------------------------------------------------------
// R5 trailer creation

func trailers(e *env) {
	c := e.c
	type written struct {
		who string
		val int64
		ok  bool
		pos token.Pos
	}
	var ws []written
	for _, a := range [][4]string{{pkgRdb, "", "createValueDump", ""}, {pkgCupRdb, "Encoder", "EncodeDumpFooter", "NewEncoder"}} {
		fn := c.Func(a[0], a[1], a[2])
		if fn == nil {
			continue
		}
		var ctor *core.Fn
		if a[3] != "" {
			if ctor = c.Func(a[0], "", a[3]); ctor == nil {
				continue
			}
		}
		shifts(c, fn, fn.Obj.Pkg().Name(), true)
		if vexpr := trailer(e, fn, ctor); vexpr != nil {
			w := written{who: fn.Decl.Name.Name, pos: vexpr.Pos()}
			x := strip(fn.Pkg.TypesInfo, vexpr)
			if k, ok := core.IntConst(fn.Pkg.TypesInfo, x); ok {
				w.val, w.ok = k, true
			} else if o := core.ObjOf(fn.Pkg.TypesInfo, x); o != nil {
				w.val, w.ok = valueOf(c, o)
			}
			ws = append(ws, w)
		}
	}
	c.Expect("R5.trailer", 10)
	for _, w := range ws {
		for _, b := range e.bounds {
			key := w.who + "-vs-" + b.checker
			if !w.ok || !b.known {
				c.Undecidedf("R5.version", key, w.pos, "version written by %s or bound of %s is not a module-wide constant", w.who, b.checker)
				continue
			}
			rel := "<="
			if b.exact {
				rel = "=="
			}
			c.Check("R5.version", key, w.pos, b.exact && w.val == b.val || !b.exact && w.val <= b.val,
				fmt.Sprintf("%s writes trailer version %d, %s accepts version %s %d: every payload the tool emits must verify under its own checkers", w.who, w.val, b.checker, rel, b.val))
		}
	}
	c.Expect("R5.version", 4)
}

// trailer checks one footer writer and returns the version expression written.
func trailer(e *env, fn, ctor *core.Fn) ast.Expr {
	c := e.c
	info := fn.Pkg.TypesInfo
	name := fn.Decl.Name.Name
	key := func(s string) string { return name + "/" + s }
	ref := func(x ast.Expr) types.Object { // local variable or struct field
		x = ast.Unparen(x)
		if u, ok := x.(*ast.UnaryExpr); ok && u.Op == token.AND {
			x = ast.Unparen(u.X)
		}
		if f := core.FieldOf(info, x); f != nil {
			return f
		}
		return objOf(info, x)
	}
	// createValueDump: the byte-sink interpreter of c01 decides the layout
	// whatever the spelling (MultiWriter + binary.Write, PutUintN into a local
	// array + Write, append-built slices, helpers); the syntactic analysis below
	// is the fallback when the body cannot be followed that way.
	if ctor == nil {
		if v, done := trailerByLayout(e, fn, key); done {
			return v
		}
	}
	// sink = io.MultiWriter(..., digest, ...)
	var sink, dig types.Object
	var under []types.Object
	where := fn
	if ctor != nil {
		where = ctor
	}
	ast.Inspect(where.Decl.Body, func(n ast.Node) bool {
		as, ok := n.(*ast.AssignStmt)
		if !ok || len(as.Lhs) != 1 || len(as.Rhs) != 1 {
			return true
		}
		call, ok := ast.Unparen(as.Rhs[0]).(*ast.CallExpr)
		if !ok || !core.IsFunc(core.CalleeFunc(info, call), "io", "", "MultiWriter") {
			return true
		}
		sink = ref(as.Lhs[0])
		for _, a := range call.Args {
			o := ref(a)
			if o == nil {
				continue
			}
			fromNew := false
			ast.Inspect(where.Decl.Body, func(m ast.Node) bool {
				var l, r ast.Expr
				switch s := m.(type) {
				case *ast.AssignStmt:
					if len(s.Lhs) == 1 && len(s.Rhs) == 1 {
						l, r = s.Lhs[0], s.Rhs[0]
					}
				case *ast.KeyValueExpr:
					l, r = s.Key, s.Value
				}
				if l != nil && (ref(l) == o || objOf(info, l) == o) {
					if nc, ok := ast.Unparen(r).(*ast.CallExpr); ok && e.isNew(core.CalleeFunc(info, nc)) {
						fromNew = true
					}
				}
				return true
			})
			if fromNew {
				dig = o
			} else {
				under = append(under, o)
			}
		}
		return true
	})
	if sink == nil || dig == nil {
		c.Undecidedf("R5.trailer", key("tee-digest"), fn.Decl.Pos(), "cannot see %s writing through io.MultiWriter(out, digest) with a digest from a checked constructor", name)
		return nil
	}
	c.Okf("R5.trailer", key("tee-digest"), fn.Decl.Pos(), "%s writes through a MultiWriter that feeds %s, a digest from a constructor checked under R2", name, dig.Name())
	// classify writes (of function wf, through its sink wsink into its digest wdig)
	type wr struct {
		call  *ast.CallExpr
		kind  string // version checksum data
		order string
		val   ast.Expr
		sumAt ast.Node // where Sum64/Sum is evaluated (the write itself or an earlier assignment)
	}
	mkClassify := func(wf *core.Fn, wsink, wdig types.Object) func(*ast.CallExpr) *wr {
		digestCall := func(e ast.Expr, method string) *ast.CallExpr {
			e = origin(info, wf.Decl.Body, e)
			if sc, ok := ast.Unparen(e).(*ast.CallExpr); ok && core.CalleeFunc(info, sc) != nil && core.CalleeFunc(info, sc).Name() == method {
				if sel, ok := ast.Unparen(sc.Fun).(*ast.SelectorExpr); ok && ref(sel.X) == wdig {
					return sc
				}
			}
			return nil
		}
		return func(call *ast.CallExpr) (res *wr) {
			f := core.CalleeFunc(info, call)
			if f == nil {
				return nil
			}
			if core.IsFunc(f, "encoding/binary", "", "Write") && len(call.Args) == 3 && ref(call.Args[0]) == wsink {
				// the value may be named first, also as an interface (`var v interface{} = uint16(V)`,
				// what a variadic forwarding helper leaves): its definition tells the width
				if o := objOf(info, call.Args[2]); o != nil {
					if rhs, other := defsOf(info, wf.Decl.Body, o); len(rhs) == 1 && other == 0 && rhs[0] != nil && width(info, call.Args[2]) == 0 {
						orig := call
						call = &ast.CallExpr{Fun: call.Fun, Lparen: call.Lparen, Args: []ast.Expr{call.Args[0], call.Args[1], rhs[0]}, Rparen: call.Rparen}
						defer func() {
							if res != nil {
								res.call = orig // the node of the control-flow graph
							}
						}()
					}
				}
				w := &wr{call: call, kind: "data", val: call.Args[2]}
				if o := core.ObjOf(info, call.Args[1]); o != nil {
					w.order = o.Name()
				}
				if sc := digestCall(call.Args[2], "Sum64"); sc != nil {
					w.kind, w.sumAt = "checksum", sc
					return w
				}
				if width(info, call.Args[2]) == 16 {
					w.kind = "version"
					if o := objOf(info, call.Args[2]); o != nil { // version := uint16(V)
						w.val = origin(info, wf.Decl.Body, call.Args[2])
					}
				}
				return w
			}
			if sel := funSel(info, wf.Decl.Body, call); sel != nil && f.Name() == "Write" && ref(sel.X) == wsink && len(call.Args) == 1 {
				w := &wr{call: call, kind: "data", order: "LittleEndian"}
				if sc := digestCall(call.Args[0], "Sum"); sc != nil {
					w.kind, w.sumAt = "checksum", sc // little-endian by R2.state/Sum-little-endian
				}
				return w
			}
			return nil
		}
	}
	count := func(wf *core.Fn, classify func(*ast.CallExpr) *wr) (ver, sum *wr, nver, nsum int) {
		core.Inspect(wf.Decl.Body, func(n ast.Node) bool {
			if call, ok := n.(*ast.CallExpr); ok {
				if w := classify(call); w != nil && w.kind == "version" {
					ver = w
					nver++
				} else if w != nil && w.kind == "checksum" {
					sum = w
					nsum++
				}
			}
			return true
		})
		return
	}
	isKindOf := func(classify func(*ast.CallExpr) *wr, kinds ...string) func(ast.Node) bool {
		return func(n ast.Node) bool {
			for _, call := range cfgq.ExecCalls(n) {
				if w := classify(call); w != nil {
					for _, k := range kinds {
						if w.kind == k {
							return true
						}
					}
				}
			}
			return false
		}
	}
	classifyFn := mkClassify(fn, sink, dig)
	classify := classifyFn
	wf := fn
	ver, sum, nver, nsum := count(fn, classify)
	var handOff *ast.CallExpr // the call that hands sink and digest to a helper writing the trailer
	if nver == 0 && nsum == 0 {
		for _, call := range core.Calls(fn.Decl.Body, info, func(call *ast.CallExpr, o types.Object) bool {
			f, _ := o.(*types.Func)
			return f != nil && f.Pkg() == fn.Obj.Pkg() && f.Type().(*types.Signature).Recv() == nil
		}) {
			si, di := -1, -1
			for i, a := range call.Args {
				if ref(a) == sink {
					si = i
				}
				if ref(a) == dig {
					di = i
				}
			}
			hf := c.FnOf(core.CalleeFunc(info, call))
			if si < 0 || di < 0 || hf == nil || hf.Decl.Body == nil {
				continue
			}
			ps := hf.Obj.Type().(*types.Signature).Params()
			if ps.Len() != len(call.Args) {
				continue
			}
			hc := mkClassify(hf, ps.At(si), ps.At(di))
			if v2, s2, nv2, ns2 := count(hf, hc); nv2+ns2 > 0 {
				handOff, wf, classify, ver, sum, nver, nsum = call, hf, hc, v2, s2, nv2, ns2
			}
		}
	}
	if nver != 1 || nsum != 1 {
		c.Undecidedf("R5.trailer", key("layout"), fn.Decl.Pos(), "expected one 16-bit version write and one checksum write through the MultiWriter, found %d and %d", nver, nsum)
		return nil
	}
	if !(ver.order == "LittleEndian" || ver.order == "BigEndian") || !(sum.order == "LittleEndian" || sum.order == "BigEndian") {
		c.Undecidedf("R5.trailer", key("version-le16"), ver.call.Pos(), "byte order of the trailer writes is not one of binary.LittleEndian / binary.BigEndian")
		return ver.val
	}
	c.Check("R5.trailer", key("version-le16"), ver.call.Pos(), ver.order == "LittleEndian", "the trailer version must be written little-endian (found binary."+ver.order+"): Redis and the tool's own checkers read it as a different number and refuse the payload")
	c.Check("R5.trailer", key("checksum-le64"), sum.call.Pos(), sum.order == "LittleEndian", "the trailer CRC must be written little-endian (found binary."+sum.order+"): the payload is refused by RESTORE and by the tool's own checkers")
	g := cfgq.Of(c.Program, wf)
	cp, _ := g.Find(sum.call)  // the checksum write
	sp, _ := g.Find(sum.sumAt) // where the digest is sampled
	vp, _ := g.Find(ver.call)
	dom, w1 := g.Dominated(sp, isKindOf(classify, "version"))
	w2 := g.Reaches(cp, isKindOf(classify, "version", "data", "checksum"))
	w3 := g.Reaches(vp, isKindOf(classify, "data", "version"))
	var w4 []string
	if sp.Node() != cp.Node() { // sampled into a local first: the checksum write must follow, nothing in between
		if d2, w := g.Dominated(cp, func(n ast.Node) bool { return n == sp.Node() }); !d2 {
			w4 = append(w4, w...)
			dom = false
		}
	}
	if handOff != nil { // nothing is written by the caller after the helper returns
		gf := cfgq.Of(c.Program, fn)
		if hp, ok := gf.Find(handOff); ok {
			w4 = append(w4, gf.Reaches(hp, isKindOf(classifyFn, "version", "data", "checksum"))...)
		}
	}
	c.Check("R5.trailer", key("layout"), sum.call.Pos(), dom && w2 == nil && w3 == nil && w4 == nil,
		"the payload must end in version(2) then CRC(8), the CRC being taken after the version went through the digest and nothing written after it: otherwise the checksum does not cover payload+version and RESTORE / verifyDump refuse it", append(append(append(w1, w2...), w3...), w4...)...)
	// nothing bypasses the digest
	var bypass []string
	core.Inspect(fn.Decl.Body, func(n ast.Node) bool {
		call, ok := n.(*ast.CallExpr)
		if !ok {
			return true
		}
		sel := funSel(info, fn.Decl.Body, call)
		isSel := sel != nil
		for _, u := range under {
			if isSel && ref(sel.X) == u && strings.HasPrefix(sel.Sel.Name, "Write") {
				bypass = append(bypass, c.Src(call))
			}
			for _, a := range call.Args {
				if ref(a) == u && classifyFn(call) == nil && !core.IsFunc(core.CalleeFunc(info, call), "io", "", "MultiWriter") {
					bypass = append(bypass, c.Src(call))
				}
			}
		}
		return true
	})
	c.Check("R5.trailer", key("no-bypass"), fn.Decl.Pos(), len(bypass) == 0,
		"every byte of the payload must pass through the MultiWriter so that the digest covers it; direct writes to the output: "+strings.Join(bypass, ", "))
	return ver.val
}

// trailerByLayout decides the trailer obligations of createValueDump when it
// does not write through a MultiWriter (say append + PutUint16/PutUint64 and an
// explicit digest.Write): c01.DumpLayout interprets the body over its byte
// sinks and reports the token sequence returned and the one the digest had
// received when the checksum was taken.
func trailerByLayout(e *env, fn *core.Fn, key func(string) string) (ast.Expr, bool) {
	c := e.c
	// c01's interpreter follows helpers that receive sinks or return bytes; when it
	// cannot follow this view of the program, the other view (helpers expanded in
	// place / as written) describes the same bytes
	lf, layout, cover, fresh, und := c01.DumpLayout(c)
	for _, other := range []*core.Program{c.Program.Inlined, c.Program.Orig} {
		if (lf == nil || len(und) > 0 || layout == "") && other != nil {
			this := c.Program
			c.Program = other
			lf, layout, cover, fresh, und = c01.DumpLayout(c)
			c.Program = this
		}
	}
	if lf == nil || lf.Obj.FullName() != fn.Obj.FullName() || len(und) > 0 || layout == "" {
		return nil, false
	}
	info := fn.Pkg.TypesInfo
	// the version written: the only 16-bit conversion in the function and the
	// same-package helpers it calls (where the value is named before it is written)
	var ver ast.Expr
	nconv := 0
	bodies := []ast.Node{fn.Decl.Body}
	for _, call := range core.Calls(fn.Decl.Body, info, func(_ *ast.CallExpr, o types.Object) bool {
		f, _ := o.(*types.Func)
		return f != nil && f.Pkg() == fn.Obj.Pkg()
	}) {
		if hf := c.FnOf(core.CalleeFunc(info, call)); hf != nil && hf.Decl.Body != nil && hf.Obj != fn.Obj {
			bodies = append(bodies, hf.Decl.Body)
		}
	}
	for _, b := range bodies {
		ast.Inspect(b, func(m ast.Node) bool {
			if call, ok := m.(*ast.CallExpr); ok && len(call.Args) == 1 {
				if tv, isT := info.Types[call.Fun]; isT && tv.IsType() && width(info, call) == 16 {
					ver = call
					nconv++
				}
			}
			return true
		})
	}
	if nconv != 1 {
		return nil, false // leave it to the syntactic analysis
	}
	toks := strings.Fields(layout)
	has := func(t string) bool {
		for _, x := range toks {
			if x == t {
				return true
			}
		}
		return false
	}
	pos := fn.Decl.Pos()
	if fresh {
		c.Okf("R5.trailer", key("tee-digest"), pos, "the checksum comes from a fresh digest fed explicitly; returned bytes: %s", layout)
	} else {
		c.Undecidedf("R5.trailer", key("tee-digest"), pos, "the digest used for the trailer is not a fresh digest.New()")
	}
	switch {
	case has("Version16LE"):
		c.Okf("R5.trailer", key("version-le16"), pos, "the trailer version is written as 16 bits little-endian")
	case has("Version16BE"):
		c.Check("R5.trailer", key("version-le16"), pos, false, "the trailer version must be written little-endian (layout "+layout+"): Redis and the tool's own checkers read it as a different number and refuse the payload")
	default:
		c.Undecidedf("R5.trailer", key("version-le16"), pos, "no 16-bit version in the returned bytes (%s)", layout)
	}
	switch {
	case has("Crc64LE"):
		c.Okf("R5.trailer", key("checksum-le64"), pos, "the trailer CRC is written as 64 bits little-endian")
	case has("Crc64BE"):
		c.Check("R5.trailer", key("checksum-le64"), pos, false, "the trailer CRC must be written little-endian (layout "+layout+"): the payload is refused by RESTORE and by the tool's own checkers")
	default:
		c.Undecidedf("R5.trailer", key("checksum-le64"), pos, "no 64-bit checksum in the returned bytes (%s)", layout)
	}
	n := len(toks)
	if n >= 2 && strings.HasPrefix(toks[n-1], "Crc64") && strings.HasPrefix(toks[n-2], "Version16") {
		c.Okf("R5.trailer", key("layout"), pos, "the payload ends in version(2) then CRC(8): %s", layout)
		c.Check("R5.trailer", key("no-bypass"), pos, cover == strings.Join(toks[:n-1], " "),
			fmt.Sprintf("the checksum must cover exactly what precedes it in the payload (%s); the digest had received: %s", strings.Join(toks[:n-1], " "), cover))
	} else {
		// the interpreter followed every byte of the result (no undecided reason), so a different ending is a fact
		c.Check("R5.trailer", key("layout"), pos, false, "the payload must end in version(2) then CRC(8), nothing after it; the returned bytes are: "+layout+": RESTORE / verifyDump refuse it")
		c.Undecidedf("R5.trailer", key("no-bypass"), pos, "not judged: the trailer layout is wrong")
	}
	return ver, true
}
