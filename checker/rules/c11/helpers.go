package c11

import (
	"go/ast"
	"go/types"
	"rscheck/cfgq"
	"rscheck/core"
)

// helperSum summarises a same-package helper f(d) that cuts the payload into
// pieces and reports with a boolean whether it was long enough.
type helperSum struct {
	views map[int]rng    // result index -> piece, on the returns whose flag (if any) is true
	okIdx int            // index of the "long enough" flag, -1 if the helper has none
	okMin int64          // flag true (or: helper returned) => len(d) >= okMin
	needs bool           // the helper slices without testing the length itself: its call must be guarded
	vals  map[int]string // result index -> "ver" | "crc" | "dig": the helper decodes / digests itself and returns the value
	acc   []access       // the helper's own role-playing reads of the payload (offsets in the same coordinates)
}

// tupleDef: o is defined exactly once, as the idx-th result of a call.
func (v *verif) tupleDef(o types.Object) (call *ast.CallExpr, idx int, ok bool) {
	if o == nil {
		return nil, 0, false
	}
	n := 0
	ast.Inspect(v.fn.Decl.Body, func(m ast.Node) bool {
		if as, isAs := m.(*ast.AssignStmt); isAs {
			for i, l := range as.Lhs {
				if objOf(v.info, l) == o {
					n++
					if c, isCall := ast.Unparen(as.Rhs[0]).(*ast.CallExpr); isCall && len(as.Rhs) == 1 {
						// several results, or the single result of a same-package helper
						if f := core.CalleeFunc(v.info, c); len(as.Lhs) > 1 || f != nil && f.Pkg() == v.fn.Obj.Pkg() {
							call, idx = c, i
						}
					}
				}
			}
		}
		return true
	})
	return call, idx, n == 1 && call != nil
}

func boolConst(info *types.Info, e ast.Expr) (val, ok bool) {
	tv, has := info.Types[e]
	if !has || tv.Value == nil {
		return false, false
	}
	switch tv.Value.String() {
	case "true":
		return true, true
	case "false":
		return false, true
	}
	return false, false
}

// summary analyses the helper called with the whole payload as only argument.
func (v *verif) summary(call *ast.CallExpr) *helperSum {
	if s, done := v.helpers[call]; done {
		return s
	}
	if v.helpers == nil {
		v.helpers = map[*ast.CallExpr]*helperSum{}
	}
	v.helpers[call] = nil
	f := core.CalleeFunc(v.info, call)
	if v.depth > 0 || f == nil || f.Pkg() != v.fn.Obj.Pkg() || len(call.Args) != 1 {
		return nil
	}
	if r, ok := v.rangeOf(call.Args[0]); !ok || r != (rng{0, 0, 1, 0}) {
		return nil
	}
	hf := v.e.c.FnOf(f)
	sig := f.Type().(*types.Signature)
	if hf == nil || hf.Decl.Body == nil || sig.Params().Len() != 1 {
		return nil
	}
	sub := &verif{e: v.e, fn: hf, info: hf.Pkg.TypesInfo, d: sig.Params().At(0), g: cfgq.Of(v.e.c.Program, hf), name: hf.Decl.Name.Name, depth: 1}
	sum := &helperSum{views: map[int]rng{}, okIdx: -1}
	for i := 0; i < sig.Results().Len(); i++ {
		if b, ok := sig.Results().At(i).Type().Underlying().(*types.Basic); ok && b.Kind() == types.Bool {
			if sum.okIdx >= 0 {
				return nil
			}
			sum.okIdx = i
		}
	}
	var trues []cfgq.Point
	valid := true
	for _, p := range sub.g.Points(func(n ast.Node) bool { _, ok := n.(*ast.ReturnStmt); return ok }) {
		r := p.Node().(*ast.ReturnStmt)
		if len(r.Results) != sig.Results().Len() {
			return nil // bare return with named results: not followed
		}
		if sum.okIdx >= 0 {
			flag, isC := boolConst(sub.info, r.Results[sum.okIdx])
			if !isC {
				return nil
			}
			if !flag {
				continue
			}
		}
		trues = append(trues, p)
		for i, res := range r.Results {
			if _, isSlice := sub.info.TypeOf(res).Underlying().(*types.Slice); !isSlice {
				continue
			}
			piece, ok := sub.rangeOf(res)
			if prev, seen := sum.views[i]; !ok || seen && prev != piece {
				valid = false
			}
			sum.views[i] = piece
		}
	}
	if !valid || len(trues) == 0 {
		return nil
	}
	for k := int64(16); k >= 1 && sum.okMin == 0; k-- {
		all := true
		for _, p := range trues {
			if ok, _ := onlyVia(sub.g, p, func(f cfgq.Fact) bool { return sub.lower(f) >= k }); !ok {
				all = false
			}
		}
		if all {
			sum.okMin = k
		}
	}
	// results that are values decoded / digested inside the helper
	subAcc := sub.accesses()
	sum.vals = map[int]string{}
	for _, p := range trues {
		r := p.Node().(*ast.ReturnStmt)
		for i, res := range r.Results {
			if _, isSlice := sub.info.TypeOf(res).Underlying().(*types.Slice); isSlice || i == sum.okIdx {
				continue
			}
			e := res
			if o := objOf(sub.info, strip(sub.info, res)); o != nil { // possibly a named result assigned once
				e = sub.origin(res)
			}
			for _, a := range subAcc {
				if a.call == nil && a.kind != "ver-lo" && a.kind != "ver-hi" {
					continue
				}
				hit := false
				ast.Inspect(e, func(n ast.Node) bool {
					if a.call != nil && n == ast.Node(a.call) || a.call == nil && n == ast.Node(a.e) {
						hit = true
					}
					return true
				})
				if hit {
					switch a.kind {
					case "ver-slice", "ver-lo", "ver-hi":
						sum.vals[i] = "ver"
					case "crc-slice":
						sum.vals[i] = "crc"
					case "covered":
						sum.vals[i] = "dig"
					case "bad", "unknown":
						if _, set := sum.vals[i]; !set {
							sum.vals[i] = "?"
						}
					}
				}
			}
		}
	}
	for _, a := range subAcc {
		if a.kind != "other" {
			sum.acc = append(sum.acc, a)
		}
	}
	// the helper's own slicing is protected by its own test, or the helper
	// relies on its caller ("the caller guarantees len(d) >= ..."): then the call
	// itself is an access that the caller's guard has to dominate
	for _, a := range subAcc {
		p, found := sub.g.Find(a.e)
		if !found {
			return nil
		}
		if ok, _ := onlyVia(sub.g, p, func(f cfgq.Fact) bool { return sub.lower(f) >= 10 }); !ok {
			sum.needs = true
		}
	}
	if sum.needs {
		sum.okMin = 0
	}
	v.helpers[call] = sum
	return sum
}
