package c11

import (
	"fmt"
	"go/ast"
	"go/token"
	"go/types"
	"strings"

	"rscheck/cfgq"
	"rscheck/core"
)

// bound is what a payload checker demands of the trailer version.
type bound struct {
	checker string
	exact   bool // version == val, else version <= val
	val     int64
	known   bool
}

func isNilRet(info *types.Info) func(ast.Node) bool {
	return func(n ast.Node) bool {
		r, ok := n.(*ast.ReturnStmt)
		return ok && len(r.Results) > 0 && core.IsNil(info, r.Results[len(r.Results)-1])
	}
}

// byteOrder: call is binary.<Order>.<method>(...); returns the order's name.
func byteOrder(info *types.Info, call *ast.CallExpr, method string) (string, bool) {
	f := core.CalleeFunc(info, call)
	if f == nil || f.Name() != method || f.Pkg() == nil || f.Pkg().Path() != "encoding/binary" {
		return "", false
	}
	sel, ok := ast.Unparen(call.Fun).(*ast.SelectorExpr)
	if !ok {
		return "", false
	}
	o := core.ObjOf(info, sel.X)
	if o == nil || o.Pkg() == nil || o.Pkg().Path() != "encoding/binary" {
		return "", false
	}
	return o.Name(), true
}

// valueOf: integer value of a constant, or of a package variable that is
// initialised with a constant and never assigned anywhere in the module.
func valueOf(c *core.Ctx, o types.Object) (int64, bool) {
	switch v := o.(type) {
	case *types.Const:
		if i, ok := constInt(v); ok {
			return i, true
		}
	case *types.Var:
		if v.Pkg() == nil || v.Parent() != v.Pkg().Scope() {
			return 0, false
		}
		pk := c.All[v.Pkg().Path()]
		if pk == nil {
			return 0, false
		}
		k, ok := core.IntConst(pk.TypesInfo, orIdent(varInit(pk, v)))
		if !ok {
			return 0, false
		}
		for _, p := range c.Pkgs {
			if p.TypesInfo == nil {
				continue
			}
			for _, f := range p.Syntax {
				assigned := false
				ast.Inspect(f, func(n ast.Node) bool {
					switch s := n.(type) {
					case *ast.AssignStmt:
						for _, l := range s.Lhs {
							if core.ObjOf(p.TypesInfo, l) == types.Object(v) {
								assigned = true
							}
						}
					case *ast.IncDecStmt:
						if core.ObjOf(p.TypesInfo, s.X) == types.Object(v) {
							assigned = true
						}
					case *ast.UnaryExpr:
						if s.Op == token.AND && core.ObjOf(p.TypesInfo, s.X) == types.Object(v) {
							assigned = true
						}
					}
					return true
				})
				if assigned {
					return 0, false
				}
			}
		}
		return k, true
	}
	return 0, false
}

func constInt(v *types.Const) (int64, bool) {
	s := v.Val().ExactString()
	var i int64
	if _, err := fmt.Sscanf(s, "%d", &i); err != nil {
		return 0, false
	}
	return i, true
}

// ---------------------------------------------------------------------------
// R3 Loader.Footer

// ---------------------------------------------------------------------------
// R3 payload verifiers

type verif struct {
	e       *env
	fn      *core.Fn
	info    *types.Info
	d       types.Object
	g       *cfgq.Graph
	name    string
	depth   int // 0: the checker itself, 1: a helper it hands the payload to
	helpers map[*ast.CallExpr]*helperSum
}

// rng is a sub-range [lo, hi) of the payload, both ends of the form a*len(d)+b.
type rng struct{ la, lb, ha, hb int64 }

// helperSum summarises a same-package helper f(d) that cuts the payload into
// pieces and reports with a boolean whether it was long enough.
type helperSum struct {
	views map[int]rng    // result index -> piece, on the returns whose flag (if any) is true
	okIdx int            // index of the "long enough" flag, -1 if the helper has none
	okMin int64          // flag true (or: helper returned) => len(d) >= okMin
	needs bool           // the helper slices without testing the length itself: its call must be guarded
	vals  map[int]string // result index -> "ver" | "crc" | "dig": the helper decodes / digests itself and returns the value
	acc   []access       // the helper's own role-playing reads of the payload (offsets in the same coordinates)
}

// tupleDef: o is defined exactly once, as the idx-th result of a call.
func (v *verif) tupleDef(o types.Object) (call *ast.CallExpr, idx int, ok bool) {
	if o == nil {
		return nil, 0, false
	}
	n := 0
	ast.Inspect(v.fn.Decl.Body, func(m ast.Node) bool {
		if as, isAs := m.(*ast.AssignStmt); isAs {
			for i, l := range as.Lhs {
				if objOf(v.info, l) == o {
					n++
					if c, isCall := ast.Unparen(as.Rhs[0]).(*ast.CallExpr); isCall && len(as.Rhs) == 1 {
						// several results, or the single result of a same-package helper
						if f := core.CalleeFunc(v.info, c); len(as.Lhs) > 1 || f != nil && f.Pkg() == v.fn.Obj.Pkg() {
							call, idx = c, i
						}
					}
				}
			}
		}
		return true
	})
	return call, idx, n == 1 && call != nil
}

func boolConst(info *types.Info, e ast.Expr) (val, ok bool) {
	tv, has := info.Types[e]
	if !has || tv.Value == nil {
		return false, false
	}
	switch tv.Value.String() {
	case "true":
		return true, true
	case "false":
		return false, true
	}
	return false, false
}

// summary analyses the helper called with the whole payload as only argument.
func (v *verif) summary(call *ast.CallExpr) *helperSum {
	if s, done := v.helpers[call]; done {
		return s
	}
	if v.helpers == nil {
		v.helpers = map[*ast.CallExpr]*helperSum{}
	}
	v.helpers[call] = nil
	f := core.CalleeFunc(v.info, call)
	if v.depth > 0 || f == nil || f.Pkg() != v.fn.Obj.Pkg() || len(call.Args) != 1 {
		return nil
	}
	if r, ok := v.rangeOf(call.Args[0]); !ok || r != (rng{0, 0, 1, 0}) {
		return nil
	}
	hf := v.e.c.FnOf(f)
	sig := f.Type().(*types.Signature)
	if hf == nil || hf.Decl.Body == nil || sig.Params().Len() != 1 {
		return nil
	}
	sub := &verif{e: v.e, fn: hf, info: hf.Pkg.TypesInfo, d: sig.Params().At(0), g: cfgq.Of(v.e.c.Program, hf), name: hf.Decl.Name.Name, depth: 1}
	sum := &helperSum{views: map[int]rng{}, okIdx: -1}
	for i := 0; i < sig.Results().Len(); i++ {
		if b, ok := sig.Results().At(i).Type().Underlying().(*types.Basic); ok && b.Kind() == types.Bool {
			if sum.okIdx >= 0 {
				return nil
			}
			sum.okIdx = i
		}
	}
	var trues []cfgq.Point
	valid := true
	for _, p := range sub.g.Points(func(n ast.Node) bool { _, ok := n.(*ast.ReturnStmt); return ok }) {
		r := p.Node().(*ast.ReturnStmt)
		if len(r.Results) != sig.Results().Len() {
			return nil // bare return with named results: not followed
		}
		if sum.okIdx >= 0 {
			flag, isC := boolConst(sub.info, r.Results[sum.okIdx])
			if !isC {
				return nil
			}
			if !flag {
				continue
			}
		}
		trues = append(trues, p)
		for i, res := range r.Results {
			if _, isSlice := sub.info.TypeOf(res).Underlying().(*types.Slice); !isSlice {
				continue
			}
			piece, ok := sub.rangeOf(res)
			if prev, seen := sum.views[i]; !ok || seen && prev != piece {
				valid = false
			}
			sum.views[i] = piece
		}
	}
	if !valid || len(trues) == 0 {
		return nil
	}
	for k := int64(16); k >= 1 && sum.okMin == 0; k-- {
		all := true
		for _, p := range trues {
			if ok, _ := onlyVia(sub.g, p, func(f cfgq.Fact) bool { return sub.lower(f) >= k }); !ok {
				all = false
			}
		}
		if all {
			sum.okMin = k
		}
	}
	// results that are values decoded / digested inside the helper
	subAcc := sub.accesses()
	sum.vals = map[int]string{}
	for _, p := range trues {
		r := p.Node().(*ast.ReturnStmt)
		for i, res := range r.Results {
			if _, isSlice := sub.info.TypeOf(res).Underlying().(*types.Slice); isSlice || i == sum.okIdx {
				continue
			}
			e := res
			if o := objOf(sub.info, strip(sub.info, res)); o != nil { // possibly a named result assigned once
				e = origin(sub.info, hf.Decl.Body, res)
			}
			for _, a := range subAcc {
				if a.call == nil && a.kind != "ver-lo" && a.kind != "ver-hi" {
					continue
				}
				hit := false
				ast.Inspect(e, func(n ast.Node) bool {
					if a.call != nil && n == ast.Node(a.call) || a.call == nil && n == ast.Node(a.e) {
						hit = true
					}
					return true
				})
				if hit {
					switch a.kind {
					case "ver-slice", "ver-lo", "ver-hi":
						sum.vals[i] = "ver"
					case "crc-slice":
						sum.vals[i] = "crc"
					case "covered":
						sum.vals[i] = "dig"
					case "bad", "unknown":
						if _, set := sum.vals[i]; !set {
							sum.vals[i] = "?"
						}
					}
				}
			}
		}
	}
	for _, a := range subAcc {
		if a.kind != "other" {
			sum.acc = append(sum.acc, a)
		}
	}
	// the helper's own slicing is protected by its own test, or the helper
	// relies on its caller ("the caller guarantees len(d) >= ..."): then the call
	// itself is an access that the caller's guard has to dominate
	for _, a := range subAcc {
		p, found := sub.g.Find(a.e)
		if !found {
			return nil
		}
		if ok, _ := onlyVia(sub.g, p, func(f cfgq.Fact) bool { return sub.lower(f) >= 10 }); !ok {
			sum.needs = true
		}
	}
	if sum.needs {
		sum.okMin = 0
	}
	v.helpers[call] = sum
	return sum
}

// rangeOf resolves e to a piece of the payload.
func (v *verif) rangeOf(e ast.Expr) (rng, bool) {
	return v.rangeOfN(e, 0)
}

func (v *verif) rangeOfN(e ast.Expr, depth int) (rng, bool) {
	if depth > 6 || e == nil {
		return rng{}, false
	}
	switch x := ast.Unparen(e).(type) {
	case *ast.Ident:
		o := objOf(v.info, x)
		if o == nil {
			return rng{}, false
		}
		if o == v.d {
			return rng{0, 0, 1, 0}, true
		}
		if call, idx, ok := v.tupleDef(o); ok {
			if s := v.summary(call); s != nil {
				r, has := s.views[idx]
				return r, has
			}
			return rng{}, false
		}
		if rhs, other := defsOf(v.info, v.fn.Decl.Body, o); len(rhs) == 1 && other == 0 && rhs[0] != nil {
			return v.rangeOfN(rhs[0], depth+1)
		}
	case *ast.SliceExpr:
		base, ok := v.rangeOfN(x.X, depth+1)
		if !ok || x.Max != nil {
			return rng{}, false
		}
		la, lb := int64(0), int64(0)
		ha, hb := base.ha-base.la, base.hb-base.lb
		if x.Low != nil {
			if la, lb, ok = v.lin(x.Low, depth+1); !ok {
				return rng{}, false
			}
		}
		if x.High != nil {
			if ha, hb, ok = v.lin(x.High, depth+1); !ok {
				return rng{}, false
			}
		}
		return rng{base.la + la, base.lb + lb, base.la + ha, base.lb + hb}, true
	}
	return rng{}, false
}

// lin evaluates e as a*len(d) + b.
func (v *verif) lin(e ast.Expr, depth int) (a, b int64, ok bool) {
	if depth > 8 {
		return 0, 0, false
	}
	e = strip(v.info, e)
	if k, isC := core.IntConst(v.info, e); isC {
		return 0, k, true
	}
	switch x := e.(type) {
	case *ast.CallExpr:
		if bi, isB := core.Callee(v.info, x).(*types.Builtin); isB && bi.Name() == "len" && len(x.Args) == 1 {
			if r, ok := v.rangeOfN(x.Args[0], depth+1); ok {
				return r.ha - r.la, r.hb - r.lb, true
			}
		}
	case *ast.Ident:
		o := objOf(v.info, x)
		if rhs, other := defsOf(v.info, v.fn.Decl.Body, o); o != nil && len(rhs) == 1 && other == 0 && rhs[0] != nil {
			if _, _, isTuple := v.tupleDef(o); !isTuple {
				return v.lin(rhs[0], depth+1)
			}
		}
	case *ast.BinaryExpr:
		a1, b1, ok1 := v.lin(x.X, depth+1)
		a2, b2, ok2 := v.lin(x.Y, depth+1)
		if ok1 && ok2 && x.Op == token.ADD {
			return a1 + a2, b1 + b2, true
		}
		if ok1 && ok2 && x.Op == token.SUB {
			return a1 - a2, b1 - b2, true
		}
	}
	return 0, 0, false
}

// lower: the lower bound on len(d) implied by fact f (0 if none).
func (v *verif) lower(f cfgq.Fact) int64 {
	// the "long enough" flag of a summarised helper
	if o := objOf(v.info, strip(v.info, f.Expr)); o != nil && f.Val {
		if call, idx, ok := v.tupleDef(o); ok {
			if s := v.summary(call); s != nil && idx == s.okIdx && !s.needs {
				return s.okMin
			}
		}
		return 0
	}
	be, ok := ast.Unparen(f.Expr).(*ast.BinaryExpr)
	if !ok {
		return 0
	}
	a1, b1, ok1 := v.lin(be.X, 0)
	a2, b2, ok2 := v.lin(be.Y, 0)
	if !ok1 || !ok2 {
		return 0
	}
	a, b, op := a1-a2, b1-b2, be.Op // a*n + b  op  0
	if a == -1 {
		a, b = 1, -b
		op = map[token.Token]token.Token{token.LSS: token.GTR, token.GTR: token.LSS, token.LEQ: token.GEQ, token.GEQ: token.LEQ}[op]
	}
	if a != 1 {
		return 0
	}
	if !f.Val {
		op = map[token.Token]token.Token{token.LSS: token.GEQ, token.GTR: token.LEQ, token.LEQ: token.GTR, token.GEQ: token.LSS}[op]
	}
	switch op { // n + b op 0
	case token.GEQ:
		return -b
	case token.GTR:
		return -b + 1
	}
	return 0
}

type access struct {
	e    ast.Expr
	call *ast.CallExpr // the decoder / digest call consuming e, if any
	kind string        // ver-lo ver-hi ver-slice crc-slice covered bad unknown other
	desc string
}

// accesses classifies the reads of the payload by the ROLE they play (which
// decoder or digest consumes them); the pieces may be named by locals or cut
// by a summarised helper. Reads with no role in the trailer check (say a d[0]
// used for a log line) are returned with kind "other".
func (v *verif) accesses() []access {
	var out []access
	src := v.e.c.Src
	seen := map[ast.Node]bool{}
	// pieces consumed by a decoder or the digest
	ast.Inspect(v.fn.Decl.Body, func(n ast.Node) bool {
		call, ok := n.(*ast.CallExpr)
		if !ok || len(call.Args) != 1 {
			return true
		}
		role := ""
		if _, ok := byteOrder(v.info, call, "Uint16"); ok {
			role = "ver-slice"
		} else if _, ok := byteOrder(v.info, call, "Uint64"); ok {
			role = "crc-slice"
		} else if v.e.isDigest(core.CalleeFunc(v.info, call)) {
			role = "covered"
		} else if v.hashObject(call) != nil {
			role = "covered" // h := crc64.New(); h.Write(piece); ... h.Sum64()
		}
		if role == "" {
			return true
		}
		arg := ast.Unparen(call.Args[0])
		seen[arg] = true
		ac := access{e: arg, call: call, kind: "unknown", desc: src(arg)}
		if r, ok := v.rangeOf(arg); ok {
			good := map[string]bool{
				"ver-slice": r.la == 1 && r.lb == -10 && r.ha == 1 && (r.hb == 0 || r.hb == -8),
				"crc-slice": r.la == 1 && r.lb == -8 && r.ha == 1 && r.hb == 0,
				"covered":   r.la == 0 && r.lb == 0 && r.ha == 1 && r.hb == -8,
			}[role]
			if good {
				ac.kind = role
			} else {
				ac.kind, ac.desc = "bad", fmt.Sprintf("%s %s = d[%s:%s]", map[string]string{"ver-slice": "version", "crc-slice": "stored CRC", "covered": "digested range"}[role], src(arg), offs(r.la, r.lb), offs(r.ha, r.hb))
			}
		}
		out = append(out, ac)
		return true
	})
	for call, sum := range v.helpers {
		if sum != nil && sum.needs {
			out = append(out, access{e: call, kind: "other", desc: src(call)})
		}
	}
	ast.Inspect(v.fn.Decl.Body, func(n ast.Node) bool {
		switch x := n.(type) {
		case *ast.IndexExpr:
			base, ok := v.rangeOf(x.X)
			if !ok {
				return true
			}
			ac := access{e: x, kind: "other", desc: src(x)}
			a, b, ok := v.lin(x.Index, 0)
			a, b = a+base.la, b+base.lb
			_, assembled := v.shiftApplied(x) // one byte of an integer put together with << and |
			switch {
			case ok && a == 1 && b == -10: // a byte of the 2-byte version field, however it is used
				ac.kind = "ver-lo"
			case ok && a == 1 && b == -9:
				ac.kind = "ver-hi"
			case assembled && !ok:
				ac.kind = "unknown"
			case assembled:
				ac.kind, ac.desc = "bad", fmt.Sprintf("version byte %s = d[%s]", src(x), offs(a, b))
			}
			out = append(out, ac)
		case *ast.SliceExpr:
			if _, ok := v.rangeOf(x.X); ok && !seen[x] {
				out = append(out, access{e: x, kind: "other", desc: src(x)})
			}
		}
		return true
	})
	return out
}

// escapes: the payload (or a piece of it) is handed to a function this rule
// does not interpret, which may do the length test.
func (v *verif) escapes() bool {
	esc := false
	ast.Inspect(v.fn.Decl.Body, func(n ast.Node) bool {
		call, ok := n.(*ast.CallExpr)
		if !ok {
			return true
		}
		if bi, isB := core.Callee(v.info, call).(*types.Builtin); isB && (bi.Name() == "len" || bi.Name() == "cap") {
			return true
		}
		if tv, isT := v.info.Types[call.Fun]; isT && tv.IsType() {
			return true
		}
		_, dec16 := byteOrder(v.info, call, "Uint16")
		_, dec64 := byteOrder(v.info, call, "Uint64")
		if dec16 || dec64 || v.e.isDigest(core.CalleeFunc(v.info, call)) {
			return true
		}
		for _, a := range call.Args {
			if _, ok := v.rangeOf(a); ok {
				esc = true
			}
		}
		return true
	})
	return esc
}

func offs(a, b int64) string {
	switch {
	case a == 0:
		return fmt.Sprint(b)
	case a == 1 && b == 0:
		return "len"
	case a == 1:
		return fmt.Sprintf("len%+d", b)
	}
	return fmt.Sprintf("%d*len%+d", a, b)
}

func verifier(e *env, fn *core.Fn) {
	c := e.c
	sig := fn.Obj.Type().(*types.Signature)
	name := fn.Decl.Name.Name
	key := func(s string) string { return name + "/" + s }
	if sig.Params().Len() != 1 {
		c.Undecidedf("R3.verify", key("skeleton"), fn.Decl.Pos(), "%s must take the payload as its only parameter", name)
		return
	}
	v := &verif{e: e, fn: fn, info: fn.Pkg.TypesInfo, d: sig.Params().At(0), g: cfgq.Of(c.Program, fn), name: name}
	info := v.info
	// helpers that receive the whole payload are summarised first
	ast.Inspect(fn.Decl.Body, func(n ast.Node) bool {
		if call, ok := n.(*ast.CallExpr); ok {
			if f := core.CalleeFunc(info, call); f != nil && f.Pkg() == fn.Obj.Pkg() && len(call.Args) == 1 && objOf(info, call.Args[0]) == v.d {
				v.summary(call)
			}
		}
		return true
	})
	acc := v.accesses()
	kinds := map[string][]access{}
	for _, a := range acc {
		kinds[a.kind] = append(kinds[a.kind], a)
	}
	// reads done inside a summarised helper play their role too (they are guarded there)
	valRole := func(x ast.Expr) string { // x is a local holding a value the helper decoded
		if call, idx, ok := v.tupleDef(objOf(info, strip(info, x))); ok {
			if sum := v.summary(call); sum != nil {
				return sum.vals[idx]
			}
		}
		return ""
	}
	for _, sum := range v.helpers {
		if sum != nil {
			for _, a := range sum.acc {
				kinds[a.kind] = append(kinds[a.kind], a)
			}
		}
	}
	// offsets
	hasVer := len(kinds["ver-slice"]) > 0 || len(kinds["ver-lo"]) > 0 && len(kinds["ver-hi"]) > 0
	switch {
	case len(kinds["bad"]) > 0:
		var ds []string
		for _, a := range kinds["bad"] {
			ds = append(ds, a.desc)
		}
		c.Failf("R3.verify", key("offsets"), kinds["bad"][0].e.Pos(), "the trailer is version(2, at len-10) + CRC(8, at len-8) and the CRC covers d[:len-8]; found %s: the wrong bytes are compared, so intact payloads are rejected or corrupted ones accepted", strings.Join(ds, ", "))
	case len(kinds["unknown"]) > 0 || !hasVer || len(kinds["crc-slice"]) == 0:
		var uk []string
		for _, a := range kinds["unknown"] {
			uk = append(uk, a.desc)
		}
		c.Undecidedf("R3.verify", key("offsets"), fn.Decl.Pos(), "cannot resolve every access to the payload relative to its length (%s; version read: %v, stored CRC read: %v)", strings.Join(uk, ", "), hasVer, len(kinds["crc-slice"]) > 0)
	default:
		c.Okf("R3.verify", key("offsets"), fn.Decl.Pos(), "version at len-10, CRC at len-8, digest over d[:len-8] (%d accesses)", len(acc))
	}
	// length guard dominates every access
	guard := func(min int64) (bool, []string) {
		for _, a := range acc {
			p, ok := v.g.Find(a.e)
			if !ok {
				return false, []string{"access not in the control-flow graph: " + a.desc}
			}
			if ok, w := onlyVia(v.g, p, func(f cfgq.Fact) bool { return v.lower(f) >= min }); !ok {
				return false, w
			}
		}
		return true, nil
	}
	if len(acc) > 0 {
		ok10, w := guard(10)
		ok13, _ := guard(13)
		ok1, _ := guard(1)
		lenTests := 0
		ast.Inspect(fn.Decl.Body, func(n ast.Node) bool {
			if be, ok := n.(*ast.BinaryExpr); ok {
				a1, _, k1 := v.lin(be.X, 0)
				a2, _, k2 := v.lin(be.Y, 0)
				switch be.Op {
				case token.LSS, token.LEQ, token.GTR, token.GEQ, token.EQL, token.NEQ:
					if k1 && a1 != 0 || k2 && a2 != 0 {
						lenTests++
					}
				}
			}
			return true
		})
		switch {
		case !ok10 && (ok1 || lenTests == 0 && !v.escapes()):
			c.Check("R3.verify", key("length-guard"), fn.Decl.Pos(), false, "every access to the payload must be preceded by the rejection of len(d) < 10 (found a weaker test or none): a payload shorter than its 10-byte trailer makes the index negative and the tool panics instead of rejecting it", w...)
		case !ok10:
			c.Undecidedf("R3.verify", key("length-guard"), fn.Decl.Pos(), "cannot see that len(d) < 10 is rejected before the payload is indexed")
		case ok13:
			c.Check("R3.verify", key("length-guard"), fn.Decl.Pos(), false, "the length guard rejects payloads of 12 bytes, which is a valid DUMP of an empty string (type, length 0, trailer)")
		default:
			c.Okf("R3.verify", key("length-guard"), fn.Decl.Pos(), "len(d) < 10 is rejected before any of the %d accesses", len(acc))
		}
	}
	// version decoding
	switch {
	case len(kinds["ver-slice"]) > 0:
		call := kinds["ver-slice"][0].call
		if order, ok := byteOrder(info, orCall(call), "Uint16"); ok {
			c.Check("R3.verify", key("version-le16"), call.Pos(), order == "LittleEndian", "the trailer version is little-endian (found binary."+order+"): version 6 is read as 0x0600 and every payload rejected")
		} else {
			c.Undecidedf("R3.verify", key("version-le16"), fn.Decl.Pos(), "version bytes are not decoded with binary.<order>.Uint16")
		}
	case len(kinds["ver-lo"]) > 0 && len(kinds["ver-hi"]) > 0:
		lo, okLo := v.shiftApplied(kinds["ver-lo"][0].e)
		hi, okHi := v.shiftApplied(kinds["ver-hi"][0].e)
		if !okLo || !okHi {
			c.Undecidedf("R3.verify", key("version-le16"), kinds["ver-lo"][0].e.Pos(), "cannot see how the two version bytes are assembled")
		} else {
			c.Check("R3.verify", key("version-le16"), kinds["ver-lo"][0].e.Pos(), lo == 0 && hi == 8,
				fmt.Sprintf("the version is d[len-10] | d[len-9]<<8 (little-endian); found shifts %d and %d: versions are mis-read and supported payloads rejected", lo, hi))
		}
	case len(kinds["ver-lo"]) > 0 || len(kinds["ver-hi"]) > 0:
		// exactly one byte of the version field is read: located and wrong when that
		// byte is what gets compared as "the version"
		one := append(append([]access{}, kinds["ver-lo"]...), kinds["ver-hi"]...)[0]
		compared := false
		ast.Inspect(fn.Decl.Body, func(n ast.Node) bool {
			if be, ok := n.(*ast.BinaryExpr); ok {
				switch be.Op {
				case token.EQL, token.NEQ, token.LSS, token.GTR, token.LEQ, token.GEQ:
					for _, side := range []ast.Expr{be.X, be.Y} {
						ast.Inspect(origin(info, fn.Decl.Body, side), func(m ast.Node) bool {
							if m == ast.Node(one.e) {
								compared = true
							}
							return true
						})
					}
				}
			}
			return true
		})
		if compared {
			c.Check("R3.verify", key("version-le16"), one.e.Pos(), false,
				fmt.Sprintf("the trailer version is the 16-bit little-endian value of d[len-10] and d[len-9], but only %s is read and compared: the other byte is ignored, so e.g. version bytes 06 01 (262) are taken for 6 and a version above the supported one is accepted", one.desc))
		} else {
			c.Undecidedf("R3.verify", key("version-le16"), one.e.Pos(), "only one byte of the version field is read (%s) and it is not visibly compared", one.desc)
		}
	default:
		c.Undecidedf("R3.verify", key("version-le16"), fn.Decl.Pos(), "version bytes are not read")
	}
	// stored CRC and digest
	var crcCall, digCall *ast.CallExpr
	if s := kinds["crc-slice"]; len(s) > 0 {
		crcCall = s[0].call
		if order, ok := byteOrder(info, orCall(crcCall), "Uint64"); ok {
			c.Check("R3.verify", key("crc-le64"), crcCall.Pos(), order == "LittleEndian", "the stored CRC is little-endian (found binary."+order+"): it never equals the digest, every intact payload is rejected")
		} else {
			crcCall = nil
			c.Undecidedf("R3.verify", key("crc-le64"), fn.Decl.Pos(), "stored CRC is not decoded with binary.<order>.Uint64")
		}
	}
	anyDigest := core.Calls(fn.Decl.Body, info, func(_ *ast.CallExpr, o types.Object) bool {
		f, _ := o.(*types.Func)
		return e.isDigest(f) || e.isNew(f)
	})
	switch s := kinds["covered"]; {
	case len(s) > 0 && s[0].call != nil:
		digCall = s[0].call
		if sc := v.hashObject(s[0].call); sc != nil {
			digCall = sc
		}
		c.Okf("R3.verify", key("digest-covers"), digCall.Pos(), "the digest is %s over d[:len-8], a one-shot function checked under R2", core.FuncName(core.CalleeFunc(info, digCall)))
	case len(anyDigest) == 0:
		c.Failf("R3.verify", key("digest-covers"), fn.Decl.Pos(), "%s never recomputes the CRC-64 of the payload: a payload altered in any byte is accepted", name)
	default:
		c.Undecidedf("R3.verify", key("digest-covers"), fn.Decl.Pos(), "cannot see a checked CRC-64 function applied to d[:len-8]")
	}
	// success only if CRC equal and version supported
	nils := v.g.Points(isNilRet(info))
	if len(nils) == 0 {
		c.Undecidedf("R3.verify", key("mismatch-rejected"), fn.Decl.Pos(), "no success return found")
		return
	}
	isVer := func(x ast.Expr) bool {
		if valRole(x) == "ver" {
			return true
		}
		x = origin(info, fn.Decl.Body, x)
		hit := false
		ast.Inspect(x, func(n ast.Node) bool {
			for _, k := range []string{"ver-slice", "ver-lo", "ver-hi"} {
				for _, a := range kinds[k] {
					if n == ast.Node(a.e) {
						hit = true
					}
				}
			}
			return true
		})
		return hit
	}
	crcAtom := func(x ast.Expr) (eq, ok bool) {
		be, isBin := ast.Unparen(x).(*ast.BinaryExpr)
		if !isBin || be.Op != token.EQL && be.Op != token.NEQ || crcCall == nil || digCall == nil {
			return false, false
		}
		role := func(e ast.Expr) string {
			if r := valRole(e); r != "" {
				return r
			}
			switch o := origin(info, fn.Decl.Body, e); {
			case o == ast.Expr(crcCall):
				return "crc"
			case o == ast.Expr(digCall):
				return "dig"
			}
			return ""
		}
		if l, r := role(be.X), role(be.Y); l == "crc" && r == "dig" || l == "dig" && r == "crc" {
			return be.Op == token.EQL, true
		}
		return false, false
	}
	// verAtom: the fact restricts the version from above; returns the bound expression
	var vbound ast.Expr
	vexact := false
	verAtom := func(f cfgq.Fact) (accepts, ok bool) {
		be, isBin := ast.Unparen(f.Expr).(*ast.BinaryExpr)
		if !isBin {
			return false, false
		}
		op, other := be.Op, be.Y
		if !isVer(be.X) {
			if !isVer(be.Y) {
				return false, false
			}
			other = be.X
			if m, has := map[token.Token]token.Token{token.LSS: token.GTR, token.GTR: token.LSS, token.LEQ: token.GEQ, token.GEQ: token.LEQ}[op]; has {
				op = m
			}
		}
		if !f.Val {
			neg, has := map[token.Token]token.Token{token.EQL: token.NEQ, token.NEQ: token.EQL, token.LSS: token.GEQ, token.GEQ: token.LSS, token.GTR: token.LEQ, token.LEQ: token.GTR}[op]
			if !has {
				return false, false
			}
			op = neg
		}
		switch op {
		case token.EQL, token.LEQ, token.LSS:
			vbound, vexact = other, op == token.EQL
			return true, true
		case token.NEQ, token.GTR, token.GEQ:
			return false, true
		}
		return false, false
	}
	anyVerAtom := false
	ast.Inspect(fn.Decl.Body, func(n ast.Node) bool {
		if x, ok := n.(ast.Expr); ok {
			if be, ok := x.(*ast.BinaryExpr); ok && (isVer(be.X) || isVer(be.Y)) {
				switch be.Op {
				case token.EQL, token.NEQ, token.LSS, token.GTR, token.LEQ, token.GEQ:
					anyVerAtom = true
				}
			}
		}
		return true
	})
	for _, p := range nils {
		pos := p.Node().Pos()
		okC, wC := onlyVia(v.g, p, func(f cfgq.Fact) bool { eq, ok := crcAtom(f.Expr); return ok && eq == f.Val })
		invC, _ := onlyVia(v.g, p, func(f cfgq.Fact) bool { eq, ok := crcAtom(f.Expr); return ok && eq != f.Val })
		switch {
		case okC:
			c.Okf("R3.verify", key("mismatch-rejected"), pos, "success only when stored CRC == digest")
		case invC:
			c.Check("R3.verify", key("mismatch-rejected"), pos, false, name+" succeeds exactly when the stored CRC DIFFERS from the digest: every intact payload is rejected, altered ones accepted", wC...)
		default:
			c.Undecidedf("R3.verify", key("mismatch-rejected"), pos, "cannot see how stored CRC and digest are compared")
		}
		okV, wV := onlyVia(v.g, p, func(f cfgq.Fact) bool { acc, ok := verAtom(f); return ok && acc })
		inv, _ := onlyVia(v.g, p, func(f cfgq.Fact) bool { acc, ok := verAtom(f); return ok && !acc })
		switch {
		case okV:
			c.Okf("R3.verify", key("version-rejected"), pos, "success only when the trailer version is within the supported bound")
		case inv:
			c.Check("R3.verify", key("version-rejected"), pos, false, name+" succeeds exactly for versions ABOVE/other than the supported one: supported payloads are rejected, unsupported accepted", wV...)
		case !anyVerAtom && hasVer:
			c.Check("R3.verify", key("version-rejected"), pos, false, name+" never tests the trailer version: a payload carrying a version above the supported one is accepted", wV...)
		default:
			c.Undecidedf("R3.verify", key("version-rejected"), pos, "cannot see how the trailer version is restricted")
		}
	}
	b := bound{checker: name, exact: vexact}
	if vbound != nil {
		x := strip(info, vbound)
		if k, ok := core.IntConst(info, x); ok {
			b.val, b.known = k, true
		} else if o := core.ObjOf(info, x); o != nil {
			b.val, b.known = valueOf(c, o)
		}
	}
	e.bounds = append(e.bounds, b)
}

// shiftApplied: the constant left shift applied to the byte e before it is
// combined with the other version byte.
func (v *verif) shiftApplied(e ast.Expr) (int64, bool) {
	path := core.PathTo(v.fn.Decl.Body, e)
	k := int64(0)
	for i := len(path) - 2; i >= 0; i-- {
		child := path[i+1]
		switch x := path[i].(type) {
		case *ast.ParenExpr:
		case *ast.CallExpr:
			if tv, ok := v.info.Types[x.Fun]; !ok || !tv.IsType() {
				return 0, false
			}
		case *ast.BinaryExpr:
			switch x.Op {
			case token.SHL:
				s, ok := core.IntConst(v.info, x.Y)
				if !ok || x.X != child {
					return 0, false
				}
				k += s
			case token.OR, token.ADD, token.XOR:
				return k, true
			default:
				return 0, false
			}
		default:
			return 0, false
		}
	}
	return 0, false
}

// hashObject: call is h.Write(x) on a local h that holds a fresh digest from a
// checked constructor and is written exactly once; it returns the h.Sum64()
// call that yields the digest of x, nil otherwise.
func (v *verif) hashObject(call *ast.CallExpr) *ast.CallExpr {
	sel, ok := ast.Unparen(call.Fun).(*ast.SelectorExpr)
	if !ok || sel.Sel.Name != "Write" || len(call.Args) != 1 {
		return nil
	}
	h := objOf(v.info, sel.X)
	if h == nil {
		return nil
	}
	rhs, other := defsOf(v.info, v.fn.Decl.Body, h)
	if len(rhs) != 1 || other != 0 || rhs[0] == nil {
		return nil
	}
	if nc, ok := ast.Unparen(rhs[0]).(*ast.CallExpr); !ok || !v.e.isNew(core.CalleeFunc(v.info, nc)) {
		return nil
	}
	writes, var64 := 0, (*ast.CallExpr)(nil)
	escapes := false
	ast.Inspect(v.fn.Decl.Body, func(n ast.Node) bool {
		c, ok := n.(*ast.CallExpr)
		if !ok {
			return true
		}
		if s2, ok := ast.Unparen(c.Fun).(*ast.SelectorExpr); ok && objOf(v.info, s2.X) == h {
			switch s2.Sel.Name {
			case "Write":
				writes++
			case "Sum64":
				var64 = c
			default:
				escapes = true
			}
		}
		for _, a := range c.Args {
			if objOf(v.info, a) == h {
				escapes = true
			}
		}
		return true
	})
	if writes != 1 || escapes {
		return nil
	}
	return var64
}
