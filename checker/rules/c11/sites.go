package c11

import (
	"fmt"
	"go/ast"
	"go/token"
	"go/types"
	"strings"

	"rscheck/cfgq"
	"rscheck/core"
)

// bound is what a payload checker demands of the trailer version.
type bound struct {
	checker string
	exact   bool // version == val, else version <= val
	val     int64
	known   bool
}

func isNilRet(info *types.Info) func(ast.Node) bool {
	return func(n ast.Node) bool {
		r, ok := n.(*ast.ReturnStmt)
		return ok && len(r.Results) > 0 && core.IsNil(info, r.Results[len(r.Results)-1])
	}
}

// byteOrder: call is binary.<Order>.<method>(...); returns the order's name.
func byteOrder(info *types.Info, call *ast.CallExpr, method string) (string, bool) {
	f := core.CalleeFunc(info, call)
	if f == nil || f.Name() != method || f.Pkg() == nil || f.Pkg().Path() != "encoding/binary" {
		return "", false
	}
	sel, ok := ast.Unparen(call.Fun).(*ast.SelectorExpr)
	if !ok {
		return "", false
	}
	o := core.ObjOf(info, sel.X)
	if o == nil || o.Pkg() == nil || o.Pkg().Path() != "encoding/binary" {
		return "", false
	}
	return o.Name(), true
}

// valueOf: integer value of a constant, or of a package variable that is
// initialised with a constant and never assigned anywhere in the module.
func valueOf(c *core.Ctx, o types.Object) (int64, bool) {
	switch v := o.(type) {
	case *types.Const:
		if i, ok := constInt(v); ok {
			return i, true
		}
	case *types.Var:
		if v.Pkg() == nil || v.Parent() != v.Pkg().Scope() {
			return 0, false
		}
		pk := c.All[v.Pkg().Path()]
		if pk == nil {
			return 0, false
		}
		k, ok := core.IntConst(pk.TypesInfo, orIdent(varInit(pk, v)))
		if !ok {
			return 0, false
		}
		for _, p := range c.Pkgs {
			if p.TypesInfo == nil {
				continue
			}
			for _, f := range p.Syntax {
				assigned := false
				ast.Inspect(f, func(n ast.Node) bool {
					switch s := n.(type) {
					case *ast.AssignStmt:
						for _, l := range s.Lhs {
							if core.ObjOf(p.TypesInfo, l) == types.Object(v) {
								assigned = true
							}
						}
					case *ast.IncDecStmt:
						if core.ObjOf(p.TypesInfo, s.X) == types.Object(v) {
							assigned = true
						}
					case *ast.UnaryExpr:
						if s.Op == token.AND && core.ObjOf(p.TypesInfo, s.X) == types.Object(v) {
							assigned = true
						}
					}
					return true
				})
				if assigned {
					return 0, false
				}
			}
		}
		return k, true
	}
	return 0, false
}

func constInt(v *types.Const) (int64, bool) {
	s := v.Val().ExactString()
	var i int64
	if _, err := fmt.Sscanf(s, "%d", &i); err != nil {
		return 0, false
	}
	return i, true
}

// ---------------------------------------------------------------------------
// R3 Loader.Footer

// ---------------------------------------------------------------------------
// R3 payload verifiers

type verif struct {
	e       *env
	fn      *core.Fn
	info    *types.Info
	d       types.Object
	g       *cfgq.Graph
	name    string
	depth   int // 0: the checker itself, 1: a helper it hands the payload to
	helpers map[*ast.CallExpr]*helperSum
	defs    *defs
}

// rng is a sub-range [lo, hi) of the payload, both ends of the form a*len(d)+b.
type rng struct{ la, lb, ha, hb int64 }

// rangeOf resolves e to a piece of the payload.
func (v *verif) rangeOf(e ast.Expr) (rng, bool) {
	return v.rangeOfN(e, 0)
}

func (v *verif) rangeOfN(e ast.Expr, depth int) (rng, bool) {
	if depth > 14 || e == nil {
		return rng{}, false
	}
	switch x := ast.Unparen(e).(type) {
	case *ast.Ident:
		o := objOf(v.info, x)
		if o == nil {
			return rng{}, false
		}
		if o == v.d {
			return rng{0, 0, 1, 0}, true
		}
		if call, idx, ok := v.tupleDef(o); ok {
			if s := v.summary(call); s != nil {
				r, has := s.views[idx]
				return r, has
			}
			return rng{}, false
		}
		if def := v.defOf(o); def != nil {
			return v.rangeOfN(def, depth+1)
		}
	case *ast.SliceExpr:
		base, ok := v.rangeOfN(x.X, depth+1)
		if !ok || x.Max != nil {
			return rng{}, false
		}
		la, lb := int64(0), int64(0)
		ha, hb := base.ha-base.la, base.hb-base.lb
		if x.Low != nil {
			if la, lb, ok = v.lin(x.Low, depth+1); !ok {
				return rng{}, false
			}
		}
		if x.High != nil {
			if ha, hb, ok = v.lin(x.High, depth+1); !ok {
				return rng{}, false
			}
		}
		return rng{base.la + la, base.lb + lb, base.la + ha, base.lb + hb}, true
	}
	return rng{}, false
}

func (v *verif) ds() *defs {
	if v.defs == nil {
		v.defs = &defs{info: v.info, body: v.fn.Decl.Body, g: v.g}
	}
	return v.defs
}

func (v *verif) defOf(o types.Object) ast.Expr { return v.ds().defOf(o) }
func (v *verif) origin(e ast.Expr) ast.Expr    { return v.ds().origin(e) }

// lin evaluates e as a*len(d) + b.
func (v *verif) lin(e ast.Expr, depth int) (a, b int64, ok bool) {
	if depth > 18 {
		return 0, 0, false
	}
	e = strip(v.info, e)
	if k, isC := core.IntConst(v.info, e); isC {
		return 0, k, true
	}
	switch x := e.(type) {
	case *ast.CallExpr:
		if bi, isB := core.Callee(v.info, x).(*types.Builtin); isB && bi.Name() == "len" && len(x.Args) == 1 {
			if r, ok := v.rangeOfN(x.Args[0], depth+1); ok {
				return r.ha - r.la, r.hb - r.lb, true
			}
		}
	case *ast.Ident:
		o := objOf(v.info, x)
		if def := v.defOf(o); o != nil && def != nil {
			if _, _, isTuple := v.tupleDef(o); !isTuple {
				return v.lin(def, depth+1)
			}
		}
	case *ast.BinaryExpr:
		a1, b1, ok1 := v.lin(x.X, depth+1)
		a2, b2, ok2 := v.lin(x.Y, depth+1)
		if ok1 && ok2 && x.Op == token.ADD {
			return a1 + a2, b1 + b2, true
		}
		if ok1 && ok2 && x.Op == token.SUB {
			return a1 - a2, b1 - b2, true
		}
	}
	return 0, 0, false
}

// lower: the lower bound on len(d) implied by fact f (0 if none).
func (v *verif) lower(f cfgq.Fact) int64 {
	// the "long enough" flag of a summarised helper
	if o := objOf(v.info, strip(v.info, f.Expr)); o != nil && f.Val {
		if call, idx, ok := v.tupleDef(o); ok {
			if s := v.summary(call); s != nil && idx == s.okIdx && !s.needs {
				return s.okMin
			}
		}
		return 0
	}
	be, ok := ast.Unparen(f.Expr).(*ast.BinaryExpr)
	if !ok {
		return 0
	}
	a1, b1, ok1 := v.lin(be.X, 0)
	a2, b2, ok2 := v.lin(be.Y, 0)
	if !ok1 || !ok2 {
		return 0
	}
	a, b, op := a1-a2, b1-b2, be.Op // a*n + b  op  0
	if a == -1 {
		a, b = 1, -b
		op = map[token.Token]token.Token{token.LSS: token.GTR, token.GTR: token.LSS, token.LEQ: token.GEQ, token.GEQ: token.LEQ}[op]
	}
	if a != 1 {
		return 0
	}
	if !f.Val {
		op = map[token.Token]token.Token{token.LSS: token.GEQ, token.GTR: token.LEQ, token.LEQ: token.GTR, token.GEQ: token.LSS}[op]
	}
	switch op { // n + b op 0
	case token.GEQ:
		return -b
	case token.GTR:
		return -b + 1
	}
	return 0
}

type access struct {
	e    ast.Expr
	call *ast.CallExpr // the decoder / digest call consuming e, if any
	kind string        // ver-lo ver-hi ver-slice crc-slice covered bad unknown other
	desc string
	role string // what consumes the piece (ver-slice crc-slice covered), also when kind is bad / unknown
}

// accesses classifies the reads of the payload by the ROLE they play (which
// decoder or digest consumes them); the pieces may be named by locals or cut
// by a summarised helper. Reads with no role in the trailer check (say a d[0]
// used for a log line) are returned with kind "other".
func (v *verif) accesses() []access {
	var out []access
	src := v.e.c.Src
	seen := map[ast.Node]bool{}
	// pieces consumed by a decoder or the digest
	ast.Inspect(v.fn.Decl.Body, func(n ast.Node) bool {
		call, ok := n.(*ast.CallExpr)
		if !ok || len(call.Args) != 1 {
			return true
		}
		role := ""
		if _, ok := byteOrder(v.info, call, "Uint16"); ok {
			role = "ver-slice"
		} else if _, ok := byteOrder(v.info, call, "Uint64"); ok {
			role = "crc-slice"
		} else if v.e.isDigest(core.CalleeFunc(v.info, call)) {
			role = "covered"
		} else if v.hashObject(call) != nil {
			role = "covered" // h := crc64.New(); h.Write(piece); ... h.Sum64()
		}
		if role == "" {
			return true
		}
		arg := ast.Unparen(call.Args[0])
		seen[arg] = true
		ac := access{e: arg, call: call, kind: "unknown", desc: src(arg), role: role}
		if r, ok := v.rangeOf(arg); ok {
			good := map[string]bool{
				"ver-slice": r.la == 1 && r.lb == -10 && r.ha == 1 && (r.hb == 0 || r.hb == -8),
				"crc-slice": r.la == 1 && r.lb == -8 && r.ha == 1 && r.hb == 0,
				"covered":   r.la == 0 && r.lb == 0 && r.ha == 1 && r.hb == -8,
			}[role]
			if good {
				ac.kind = role
			} else {
				ac.kind, ac.desc = "bad", fmt.Sprintf("%s %s = d[%s:%s]", map[string]string{"ver-slice": "version", "crc-slice": "stored CRC", "covered": "digested range"}[role], src(arg), offs(r.la, r.lb), offs(r.ha, r.hb))
			}
		}
		out = append(out, ac)
		return true
	})
	for call, sum := range v.helpers {
		if sum != nil && sum.needs {
			out = append(out, access{e: call, kind: "other", desc: src(call)})
		}
	}
	ast.Inspect(v.fn.Decl.Body, func(n ast.Node) bool {
		switch x := n.(type) {
		case *ast.IndexExpr:
			base, ok := v.rangeOf(x.X)
			if !ok {
				return true
			}
			ac := access{e: x, kind: "other", desc: src(x)}
			a, b, ok := v.lin(x.Index, 0)
			a, b = a+base.la, b+base.lb
			_, assembled := v.shiftApplied(x) // one byte of an integer put together with << and |
			switch {
			case ok && a == 1 && b == -10: // a byte of the 2-byte version field, however it is used
				ac.kind = "ver-lo"
			case ok && a == 1 && b == -9:
				ac.kind = "ver-hi"
			case assembled && !ok:
				ac.kind = "unknown"
			case assembled:
				ac.kind, ac.desc = "bad", fmt.Sprintf("version byte %s = d[%s]", src(x), offs(a, b))
			}
			out = append(out, ac)
		case *ast.SliceExpr:
			if _, ok := v.rangeOf(x.X); ok && !seen[x] {
				out = append(out, access{e: x, kind: "other", desc: src(x)})
			}
		}
		return true
	})
	return out
}

// escapes: the payload (or a piece of it) is handed to a function this rule
// does not interpret, which may do the length test.
func (v *verif) escapes() bool {
	esc := false
	ast.Inspect(v.fn.Decl.Body, func(n ast.Node) bool {
		call, ok := n.(*ast.CallExpr)
		if !ok {
			return true
		}
		if bi, isB := core.Callee(v.info, call).(*types.Builtin); isB && (bi.Name() == "len" || bi.Name() == "cap") {
			return true
		}
		if tv, isT := v.info.Types[call.Fun]; isT && tv.IsType() {
			return true
		}
		_, dec16 := byteOrder(v.info, call, "Uint16")
		_, dec64 := byteOrder(v.info, call, "Uint64")
		if dec16 || dec64 || v.e.isDigest(core.CalleeFunc(v.info, call)) {
			return true
		}
		for _, a := range call.Args {
			if _, ok := v.rangeOf(a); ok {
				esc = true
			}
		}
		return true
	})
	return esc
}

func offs(a, b int64) string {
	switch {
	case a == 0:
		return fmt.Sprint(b)
	case a == 1 && b == 0:
		return "len"
	case a == 1:
		return fmt.Sprintf("len%+d", b)
	}
	return fmt.Sprintf("%d*len%+d", a, b)
}

func verifier(e *env, fn *core.Fn) {
	c := e.c
	sig := fn.Obj.Type().(*types.Signature)
	name := fn.Decl.Name.Name
	key := func(s string) string { return name + "/" + s }
	if sig.Params().Len() != 1 {
		c.Undecidedf("R3.verify", key("skeleton"), fn.Decl.Pos(), "%s must take the payload as its only parameter", name)
		return
	}
	v := &verif{e: e, fn: fn, info: fn.Pkg.TypesInfo, d: sig.Params().At(0), g: cfgq.Of(c.Program, fn), name: name}
	info := v.info
	// helpers that receive the whole payload are summarised first
	ast.Inspect(fn.Decl.Body, func(n ast.Node) bool {
		if call, ok := n.(*ast.CallExpr); ok {
			if f := core.CalleeFunc(info, call); f != nil && f.Pkg() == fn.Obj.Pkg() && len(call.Args) == 1 && objOf(info, call.Args[0]) == v.d {
				v.summary(call)
			}
		}
		return true
	})
	acc := v.accesses()
	kinds := map[string][]access{}
	for _, a := range acc {
		kinds[a.kind] = append(kinds[a.kind], a)
	}
	// reads done inside a summarised helper play their role too (they are guarded there)
	valRole := func(x ast.Expr) string { // x is a local holding a value the helper decoded
		if call, idx, ok := v.tupleDef(objOf(info, strip(info, x))); ok {
			if sum := v.summary(call); sum != nil {
				return sum.vals[idx]
			}
		}
		return ""
	}
	for _, sum := range v.helpers {
		if sum != nil {
			for _, a := range sum.acc {
				kinds[a.kind] = append(kinds[a.kind], a)
			}
		}
	}
	// offsets
	hasVer := len(kinds["ver-slice"]) > 0 || len(kinds["ver-lo"]) > 0 && len(kinds["ver-hi"]) > 0
	switch {
	case len(kinds["bad"]) > 0:
		var ds []string
		for _, a := range kinds["bad"] {
			ds = append(ds, a.desc)
		}
		c.Failf("R3.verify", key("offsets"), kinds["bad"][0].e.Pos(), "the trailer is version(2, at len-10) + CRC(8, at len-8) and the CRC covers d[:len-8]; found %s: the wrong bytes are compared, so intact payloads are rejected or corrupted ones accepted", strings.Join(ds, ", "))
	case len(kinds["unknown"]) > 0 || !hasVer || len(kinds["crc-slice"]) == 0:
		var uk []string
		for _, a := range kinds["unknown"] {
			uk = append(uk, a.desc)
		}
		c.Undecidedf("R3.verify", key("offsets"), fn.Decl.Pos(), "cannot resolve every access to the payload relative to its length (%s; version read: %v, stored CRC read: %v)", strings.Join(uk, ", "), hasVer, len(kinds["crc-slice"]) > 0)
	default:
		c.Okf("R3.verify", key("offsets"), fn.Decl.Pos(), "version at len-10, CRC at len-8, digest over d[:len-8] (%d accesses)", len(acc))
	}
	// length guard dominates every access
	guard := func(min int64) (bool, []string) {
		for _, a := range acc {
			p, ok := v.g.Find(a.e)
			if !ok {
				return false, []string{"access not in the control-flow graph: " + a.desc}
			}
			if ok, w := onlyVia(v.g, p, func(f cfgq.Fact) bool { return v.lower(f) >= min }); !ok {
				return false, w
			}
		}
		return true, nil
	}
	if len(acc) > 0 {
		ok10, w := guard(10)
		ok13, _ := guard(13)
		ok1, _ := guard(1)
		lenTests := 0
		ast.Inspect(fn.Decl.Body, func(n ast.Node) bool {
			if be, ok := n.(*ast.BinaryExpr); ok {
				a1, _, k1 := v.lin(be.X, 0)
				a2, _, k2 := v.lin(be.Y, 0)
				switch be.Op {
				case token.LSS, token.LEQ, token.GTR, token.GEQ, token.EQL, token.NEQ:
					if k1 && a1 != 0 || k2 && a2 != 0 {
						lenTests++
					}
				}
			}
			return true
		})
		switch {
		case !ok10 && (ok1 || lenTests == 0 && !v.escapes()):
			c.Check("R3.verify", key("length-guard"), fn.Decl.Pos(), false, "every access to the payload must be preceded by the rejection of len(d) < 10 (found a weaker test or none): a payload shorter than its 10-byte trailer makes the index negative and the tool panics instead of rejecting it", w...)
		case !ok10:
			c.Undecidedf("R3.verify", key("length-guard"), fn.Decl.Pos(), "cannot see that len(d) < 10 is rejected before the payload is indexed")
		case ok13:
			c.Check("R3.verify", key("length-guard"), fn.Decl.Pos(), false, "the length guard rejects payloads of 12 bytes, which is a valid DUMP of an empty string (type, length 0, trailer)")
		default:
			c.Okf("R3.verify", key("length-guard"), fn.Decl.Pos(), "len(d) < 10 is rejected before any of the %d accesses", len(acc))
		}
	}
	// version decoding
	switch {
	case len(kinds["ver-slice"]) > 0:
		call := kinds["ver-slice"][0].call
		if order, ok := byteOrder(info, orCall(call), "Uint16"); ok {
			c.Check("R3.verify", key("version-le16"), call.Pos(), order == "LittleEndian", "the trailer version is little-endian (found binary."+order+"): version 6 is read as 0x0600 and every payload rejected")
		} else {
			c.Undecidedf("R3.verify", key("version-le16"), fn.Decl.Pos(), "version bytes are not decoded with binary.<order>.Uint16")
		}
	case len(kinds["ver-lo"]) > 0 && len(kinds["ver-hi"]) > 0:
		lo, lostLo, rLo, okLo := v.placement(kinds["ver-lo"][0].e)
		hi, lostHi, rHi, okHi := v.placement(kinds["ver-hi"][0].e)
		// a byte moved to the right before it is combined has lost bits for good. That is
		// a verdict when this read is the only one of that byte (no second read can bring
		// the dropped bits back) and the other byte is placed in a way this rule reads too.
		sole := len(kinds["ver-lo"]) == 1 && len(kinds["ver-hi"]) == 1
		if !okLo || !okHi {
			c.Undecidedf("R3.verify", key("version-le16"), kinds["ver-lo"][0].e.Pos(), "cannot see how the two version bytes are assembled")
		} else if lostLo > 0 || lostHi > 0 {
			which, a, lost, r := "high", kinds["ver-hi"][0], lostHi, rHi
			if lostHi == 0 {
				which, a, lost, r = "low", kinds["ver-lo"][0], lostLo, rLo
			}
			if lost > 8 {
				lost = 8
			}
			if !sole {
				c.Undecidedf("R3.verify", key("version-le16"), a.e.Pos(), "the %s version byte %s is moved to the right in %s, but the byte is read more than once: cannot see that its bits are lost", which, a.desc, c.Src(r))
			} else {
				c.Check("R3.verify", key("version-le16"), r.Pos(), false,
					fmt.Sprintf("the version is d[len-10] | d[len-9]<<8 (little-endian): each byte must reach the result whole, the low one at bit 0 and the high one at bit 8; %s moves the %s byte %s to the RIGHT and drops %d of its 8 bits before it is combined, so that byte no longer (fully) contributes: %s", c.Src(r), which, a.desc, lost, map[string]string{
						"high": "trailer version bytes 06 01 (0x0106) are read as 6 and a version above the supported one is accepted",
						"low":  "versions that differ in the dropped bits are read as the same number, so a version above the supported one is taken for a supported one and accepted"}[which]))
			}
		} else {
			c.Check("R3.verify", key("version-le16"), kinds["ver-lo"][0].e.Pos(), lo == 0 && hi == 8,
				fmt.Sprintf("the version is d[len-10] | d[len-9]<<8 (little-endian); found shifts %d and %d: versions are mis-read and supported payloads rejected", lo, hi))
		}
	case len(kinds["ver-lo"]) > 0 || len(kinds["ver-hi"]) > 0:
		// exactly one byte of the version field is read: located and wrong when that
		// byte is what gets compared as "the version"
		one := append(append([]access{}, kinds["ver-lo"]...), kinds["ver-hi"]...)[0]
		compared := false
		ast.Inspect(fn.Decl.Body, func(n ast.Node) bool {
			if be, ok := n.(*ast.BinaryExpr); ok {
				switch be.Op {
				case token.EQL, token.NEQ, token.LSS, token.GTR, token.LEQ, token.GEQ:
					for _, side := range []ast.Expr{be.X, be.Y} {
						ast.Inspect(v.origin(side), func(m ast.Node) bool {
							if m == ast.Node(one.e) {
								compared = true
							}
							return true
						})
					}
				}
			}
			return true
		})
		if compared {
			c.Check("R3.verify", key("version-le16"), one.e.Pos(), false,
				fmt.Sprintf("the trailer version is the 16-bit little-endian value of d[len-10] and d[len-9], but only %s is read and compared: the other byte is ignored, so e.g. version bytes 06 01 (262) are taken for 6 and a version above the supported one is accepted", one.desc))
		} else {
			c.Undecidedf("R3.verify", key("version-le16"), one.e.Pos(), "only one byte of the version field is read (%s) and it is not visibly compared", one.desc)
		}
	default:
		c.Undecidedf("R3.verify", key("version-le16"), fn.Decl.Pos(), "version bytes are not read")
	}
	// stored CRC and digest
	var crcCall, digCall *ast.CallExpr
	if s := kinds["crc-slice"]; len(s) > 0 {
		crcCall = s[0].call
		if order, ok := byteOrder(info, orCall(crcCall), "Uint64"); ok {
			c.Check("R3.verify", key("crc-le64"), crcCall.Pos(), order == "LittleEndian", "the stored CRC is little-endian (found binary."+order+"): it never equals the digest, every intact payload is rejected")
		} else {
			crcCall = nil
			c.Undecidedf("R3.verify", key("crc-le64"), fn.Decl.Pos(), "stored CRC is not decoded with binary.<order>.Uint64")
		}
	}
	anyDigest := core.Calls(fn.Decl.Body, info, func(_ *ast.CallExpr, o types.Object) bool {
		f, _ := o.(*types.Func)
		return e.isDigest(f) || e.isNew(f)
	})
	var badCover *access
	for i, a := range kinds["bad"] {
		if a.role == "covered" {
			badCover = &kinds["bad"][i]
		}
	}
	switch s := kinds["covered"]; {
	case badCover != nil:
		// (also reported under offsets; here under the key that stays open when the
		// range is named in a helper or a field on the tree as written)
		c.Failf("R3.verify", key("digest-covers"), badCover.e.Pos(), "the CRC must be recomputed over d[:len-8] (payload and version); found %s: the wrong bytes are digested, so intact payloads are rejected or corrupted ones accepted", badCover.desc)
	case len(s) > 0 && s[0].call != nil:
		digCall = s[0].call
		if sc := v.hashObject(s[0].call); sc != nil {
			digCall = sc
		}
		c.Okf("R3.verify", key("digest-covers"), digCall.Pos(), "the digest is %s over d[:len-8], a one-shot function checked under R2", core.FuncName(core.CalleeFunc(info, digCall)))
	case len(anyDigest) == 0 && e.digestFree(fn, 0, map[*types.Func]bool{}):
		c.Failf("R3.verify", key("digest-covers"), fn.Decl.Pos(), "%s never recomputes the CRC-64 of the payload: a payload altered in any byte is accepted", name)
	default:
		c.Undecidedf("R3.verify", key("digest-covers"), fn.Decl.Pos(), "cannot see a checked CRC-64 function applied to d[:len-8]")
	}
	// success only if CRC equal and version supported
	nils := v.g.Points(isNilRet(info))
	if len(nils) == 0 {
		c.Undecidedf("R3.verify", key("mismatch-rejected"), fn.Decl.Pos(), "no success return found")
		return
	}
	isVer := func(x ast.Expr) bool {
		if valRole(x) == "ver" {
			return true
		}
		x = v.origin(x)
		hit := false
		ast.Inspect(x, func(n ast.Node) bool {
			for _, k := range []string{"ver-slice", "ver-lo", "ver-hi"} {
				for _, a := range kinds[k] {
					if n == ast.Node(a.e) {
						hit = true
					}
				}
			}
			return true
		})
		return hit
	}
	crcAtom := func(x ast.Expr) (eq, ok bool) {
		be, isBin := ast.Unparen(x).(*ast.BinaryExpr)
		if !isBin || be.Op != token.EQL && be.Op != token.NEQ || crcCall == nil || digCall == nil {
			return false, false
		}
		role := func(e ast.Expr) string {
			if r := valRole(e); r != "" {
				return r
			}
			switch o := v.origin(e); {
			case o == ast.Expr(crcCall):
				return "crc"
			case o == ast.Expr(digCall):
				return "dig"
			}
			return ""
		}
		if l, r := role(be.X), role(be.Y); l == "crc" && r == "dig" || l == "dig" && r == "crc" {
			return be.Op == token.EQL, true
		}
		return false, false
	}
	// verAtom: the fact restricts the version from above; returns the bound expression
	var vbound ast.Expr
	vexact := false
	verAtom := func(f cfgq.Fact) (accepts, ok bool) {
		be, isBin := ast.Unparen(f.Expr).(*ast.BinaryExpr)
		if !isBin {
			return false, false
		}
		op, other := be.Op, be.Y
		if !isVer(be.X) {
			if !isVer(be.Y) {
				return false, false
			}
			other = be.X
			if m, has := map[token.Token]token.Token{token.LSS: token.GTR, token.GTR: token.LSS, token.LEQ: token.GEQ, token.GEQ: token.LEQ}[op]; has {
				op = m
			}
		}
		if !f.Val {
			neg, has := map[token.Token]token.Token{token.EQL: token.NEQ, token.NEQ: token.EQL, token.LSS: token.GEQ, token.GEQ: token.LSS, token.GTR: token.LEQ, token.LEQ: token.GTR}[op]
			if !has {
				return false, false
			}
			op = neg
		}
		switch op {
		case token.EQL, token.LEQ, token.LSS:
			vbound, vexact = other, op == token.EQL
			return true, true
		case token.NEQ, token.GTR, token.GEQ:
			return false, true
		}
		return false, false
	}
	anyVerAtom := false
	ast.Inspect(fn.Decl.Body, func(n ast.Node) bool {
		if x, ok := n.(ast.Expr); ok {
			if be, ok := x.(*ast.BinaryExpr); ok && (isVer(be.X) || isVer(be.Y)) {
				switch be.Op {
				case token.EQL, token.NEQ, token.LSS, token.GTR, token.LEQ, token.GEQ:
					anyVerAtom = true
				}
			}
		}
		return true
	})
	for _, p := range nils {
		pos := p.Node().Pos()
		okC, wC := onlyVia(v.g, p, func(f cfgq.Fact) bool { eq, ok := crcAtom(f.Expr); return ok && eq == f.Val })
		invC, _ := onlyVia(v.g, p, func(f cfgq.Fact) bool { eq, ok := crcAtom(f.Expr); return ok && eq != f.Val })
		switch {
		case okC:
			c.Okf("R3.verify", key("mismatch-rejected"), pos, "success only when stored CRC == digest")
		case invC:
			c.Check("R3.verify", key("mismatch-rejected"), pos, false, name+" succeeds exactly when the stored CRC DIFFERS from the digest: every intact payload is rejected, altered ones accepted", wC...)
		default:
			c.Undecidedf("R3.verify", key("mismatch-rejected"), pos, "cannot see how stored CRC and digest are compared")
		}
		okV, wV := onlyVia(v.g, p, func(f cfgq.Fact) bool { acc, ok := verAtom(f); return ok && acc })
		inv, _ := onlyVia(v.g, p, func(f cfgq.Fact) bool { acc, ok := verAtom(f); return ok && !acc })
		switch {
		case okV:
			c.Okf("R3.verify", key("version-rejected"), pos, "success only when the trailer version is within the supported bound")
		case inv:
			c.Check("R3.verify", key("version-rejected"), pos, false, name+" succeeds exactly for versions ABOVE/other than the supported one: supported payloads are rejected, unsupported accepted", wV...)
		case !anyVerAtom && hasVer && v.versionConfined(kinds, valRole):
			c.Check("R3.verify", key("version-rejected"), pos, false, name+" never tests the trailer version: a payload carrying a version above the supported one is accepted", wV...)
		default:
			c.Undecidedf("R3.verify", key("version-rejected"), pos, "cannot see how the trailer version is restricted")
		}
	}
	b := bound{checker: name, exact: vexact}
	if vbound != nil {
		x := strip(info, vbound)
		if k, ok := core.IntConst(info, x); ok {
			b.val, b.known = k, true
		} else if o := core.ObjOf(info, x); o != nil {
			b.val, b.known = valueOf(c, o)
		}
	}
	e.bounds = append(e.bounds, b)
}

// digestFree: neither fn nor anything it can call computes a checksum: every
// call in its body goes to a builtin, a conversion, a library function that has
// nothing to do with hashing, or a function of the program that is digest-free
// itself. A call through a function value, an interface method or a helper that
// cannot be followed may compute the CRC where this rule does not look, so
// "never recomputed" cannot be concluded then.
func (e *env) digestFree(fn *core.Fn, depth int, seen map[*types.Func]bool) bool {
	if fn == nil || fn.Decl.Body == nil || depth > 4 {
		return false
	}
	if seen[fn.Obj] {
		return true
	}
	seen[fn.Obj] = true
	info := fn.Pkg.TypesInfo
	free := true
	ast.Inspect(fn.Decl.Body, func(n ast.Node) bool {
		call, ok := n.(*ast.CallExpr)
		if !ok || !free {
			return free
		}
		if tv, isT := info.Types[call.Fun]; isT && tv.IsType() {
			return true
		}
		switch o := core.Callee(info, call).(type) {
		case *types.Builtin:
		case *types.Func:
			if e.isDigest(o) || e.isNew(o) {
				free = false
				break
			}
			std := o.Pkg() != nil && !strings.Contains(strings.SplitN(o.Pkg().Path(), "/", 2)[0], ".") // standard library: a leaf
			if hf := e.c.FnOf(o); hf != nil && !std {
				if !e.digestFree(hf, depth+1, seen) {
					free = false
				}
				break
			}
			sig, _ := o.Type().(*types.Signature)
			if sig != nil && sig.Recv() != nil {
				if _, isIface := sig.Recv().Type().Underlying().(*types.Interface); isIface {
					free = false // dynamic dispatch
					break
				}
			}
			if o.Pkg() == nil || strings.Contains(o.Pkg().Path(), "hash") || strings.Contains(o.Pkg().Path(), "crc") || strings.Contains(o.Pkg().Path(), "digest") {
				free = false
			}
		default:
			free = false // function value, method value, closure
		}
		return free
	})
	return free
}
