package c11

import (
	"fmt"
	"go/ast"
	"go/token"
	"go/types"
	"rscheck/cfgq"
	"rscheck/core"
	"rscheck/pat"
	"rscheck/rules/ring"

	"golang.org/x/tools/go/cfg"
)

func footer(e *env) {
	c := e.c
	newLoader := c.Func(pkgRdb, "", "NewLoader")
	foot := c.Func(pkgRdb, "Loader", "Footer")
	if newLoader == nil || foot == nil {
		return
	}
	info := foot.Pkg.TypesInfo
	// the digest whose Sum64 Footer compares
	var teeField *types.Var
	for _, call := range core.Calls(foot.Decl.Body, info, func(call *ast.CallExpr, o types.Object) bool { return o != nil && o.Name() == "Sum64" }) {
		if sel := funSel(info, foot.Decl.Body, call); sel != nil {
			teeField = core.FieldOf(info, sel.X)
		}
	}
	if teeField == nil {
		c.Undecidedf("R3.footer", "NewLoader/tee-digest", foot.Decl.Pos(), "Footer does not take Sum64 of a digest field")
		return
	}
	// it is a sink of the TeeReader the loader reads from, and comes from a checked
	// constructor. The loader may be built field by field or as a composite literal,
	// and the digest may be held in a single-assignment local first (the same object
	// then goes to the tee and to the field).
	teeToReader, fromNew, fed := false, false, false
	stores := fieldStores(info, newLoader.Decl.Body)
	var alias types.Object
	var ctorCall *ast.CallExpr // the constructor call whose result ends up in the field
	nds := &defs{info: info, body: newLoader.Decl.Body, g: cfgq.Of(c.Program, newLoader)}
	for _, st := range stores {
		if st.f != teeField {
			continue
		}
		if nc, ok := nds.chase(st.v).(*ast.CallExpr); ok && e.isNew(core.CalleeFunc(info, nc)) {
			fromNew, ctorCall = true, nc
			if o := objOf(info, strip(info, st.v)); o != nil {
				alias = o
			}
		}
	}
	// the object in the field is also reachable under another name when what is stored
	// is not a fresh constructor result: "never fed" cannot be concluded then
	heldElsewhere := false
	for _, fn := range funcsOf(foot.Pkg) {
		for _, st := range fieldStores(info, fn.Decl.Body) {
			if _, fresh := strip(info, st.v).(*ast.CallExpr); st.f == teeField && !fresh && (alias == nil || objOf(info, strip(info, st.v)) != alias) {
				heldElsewhere = true
			}
		}
	}
	isDigestRef := func(x ast.Expr) bool {
		if core.FieldOf(info, x) == teeField {
			return true
		}
		o := objOf(info, strip(info, x))
		if o != nil && o == alias {
			return true
		}
		// another name of the very same constructor result
		return o != nil && ctorCall != nil && nds.chase(x) == ast.Expr(ctorCall)
	}
	for _, fn := range funcsOf(foot.Pkg) {
		ast.Inspect(fn.Decl.Body, func(n ast.Node) bool {
			if call, ok := n.(*ast.CallExpr); ok {
				for _, a := range call.Args {
					if isDigestRef(a) {
						fed = true
					}
				}
				if sel, ok := ast.Unparen(call.Fun).(*ast.SelectorExpr); ok && isDigestRef(sel.X) && sel.Sel.Name != "Sum64" {
					fed = true
				}
			}
			return true
		})
	}
	var teeCall *ast.CallExpr
	ast.Inspect(newLoader.Decl.Body, func(n ast.Node) bool {
		if x, ok := n.(*ast.CallExpr); ok && core.IsFunc(core.CalleeFunc(info, x), "io", "", "TeeReader") && len(x.Args) == 2 && isDigestRef(x.Args[1]) {
			teeCall = x
		}
		return true
	})
	if teeCall != nil {
		// the tee'd reader ends up in a field of the loader (wrapped, directly or through a local)
		carriers := map[types.Object]bool{}
		usesTee := func(v ast.Expr) bool {
			uses := false
			ast.Inspect(v, func(m ast.Node) bool {
				if m == ast.Node(teeCall) {
					uses = true
				}
				if id, ok := m.(*ast.Ident); ok && carriers[info.Uses[id]] {
					uses = true
				}
				return true
			})
			return uses
		}
		ast.Inspect(newLoader.Decl.Body, func(n ast.Node) bool {
			switch as := n.(type) {
			case *ast.AssignStmt:
				for i, l := range as.Lhs {
					if r := core.AssignedTo(as, i); r != nil && usesTee(r) {
						if o := objOf(info, l); o != nil {
							carriers[o] = true
						}
					}
				}
			case *ast.ValueSpec:
				if len(as.Names) == 1 && len(as.Values) == 1 && usesTee(as.Values[0]) {
					if o := info.Defs[as.Names[0]]; o != nil {
						carriers[o] = true
					}
				}
			}
			return true
		})
		for _, st := range stores {
			if st.f != teeField && (usesTee(st.v) || usesTee(nds.chase(st.v))) {
				teeToReader = true
			}
		}
	}
	switch {
	case teeToReader && fromNew:
		c.Okf("R3.footer", "NewLoader/tee-digest", newLoader.Decl.Pos(), "every byte the loader reads is tee'd into field %s, a digest from a constructor checked under R2", teeField.Name())
	case !fed && !heldElsewhere:
		c.Failf("R3.footer", "NewLoader/tee-digest", newLoader.Decl.Pos(), "the digest field %s whose Sum64 Footer compares is never fed (no TeeReader/Write uses it): its value stays 0, so every intact RDB with a non-zero CRC is rejected and the check detects nothing", teeField.Name())
		return
	default:
		c.Undecidedf("R3.footer", "NewLoader/tee-digest", newLoader.Decl.Pos(), "cannot see the loader reading through io.TeeReader(r, <digest field>) with a digest from a checked constructor")
		return
	}
	g := cfgq.Of(c.Program, foot)
	isSum := g.HasCall(func(call *ast.CallExpr, o types.Object) bool {
		sel := funSel(info, foot.Decl.Body, call)
		return sel != nil && o != nil && o.Name() == "Sum64" && core.FieldOf(info, sel.X) == teeField
	})
	isRead := g.HasCall(func(call *ast.CallExpr, o types.Object) bool {
		f, _ := o.(*types.Func)
		if f == nil {
			return false
		}
		sig := f.Type().(*types.Signature)
		if sig.Recv() == nil {
			return false
		}
		rn := core.NamedTypeName(sig.Recv().Type())
		return f.Pkg() == foot.Obj.Pkg() && (rn == "Loader" || rn == "rdbReader")
	})
	sums, reads := g.Points(isSum), g.Points(isRead)
	if len(sums) != 1 || len(reads) != 1 {
		c.Undecidedf("R3.footer", "Footer/skeleton", foot.Decl.Pos(), "expected one Sum64 of the tee'd digest and one trailer read in Footer, found %d and %d", len(sums), len(reads))
		return
	}
	dom, w := g.Dominated(reads[0], isSum)
	c.Check("R3.footer", "Footer/sum-before-read", reads[0].Node().Pos(), dom,
		"Sum64 must be taken before the trailer is read: the read passes the 8 checksum bytes through the tee into the digest, so a Sum64 taken afterwards is the CRC of data+trailer and never equals the stored CRC (every intact RDB is rejected)", w...)
	sumAs, readAs := boundTo(info, sums[0].Node(), isSum), boundTo(info, reads[0].Node(), isRead)
	if sumAs == nil || readAs == nil || len(sumAs.Lhs) != 1 || len(readAs.Lhs) != 2 {
		c.Undecidedf("R3.footer", "Footer/mismatch-rejected", foot.Decl.Pos(), "Sum64 / trailer read are not bound to variables")
		return
	}
	ds := &defs{info: info, body: foot.Decl.Body, g: g}
	// the trailer read is 8 bytes little-endian
	if rc := cfgq.ExecCalls(reads[0].Node()); len(rc) > 0 {
		if rf := c.FnOf(core.CalleeFunc(info, rc[len(rc)-1])); rf != nil {
			le64(c, rf)
		}
	}
	bd := pat.Binds{"_a": sumAs.Lhs[0], "_b": readAs.Lhs[0], "_err": readAs.Lhs[1]}
	same := func(x, y ast.Expr) bool { return pat.Same(info, strip(info, x), strip(info, y)) || ds.sameValue(x, y) }
	// established: +1 if the fact establishes computed == stored, -1 if it
	// establishes that they differ; a one-line boolean helper is looked through.
	var outer map[types.Object]ast.Expr // parameters of a helper the verdict is delegated to -> Footer's arguments
	established := func(f cfgq.Fact) int {
		atoms := []cfgq.Fact{f}
		subst := func(x ast.Expr) ast.Expr {
			if a, ok := outer[objOf(info, strip(info, x))]; ok {
				return a
			}
			return x
		}
		if call, ok := ast.Unparen(f.Expr).(*ast.CallExpr); ok {
			if ret, args := predBody(c, foot, call); ret != nil {
				atoms = cfgq.Facts(ret, f.Val)
				prev := subst
				subst = func(x ast.Expr) ast.Expr {
					if a, ok := args[objOf(info, strip(info, x))]; ok {
						return prev(a)
					}
					return prev(x)
				}
			}
		}
		for _, a := range atoms {
			be, ok := ast.Unparen(a.Expr).(*ast.BinaryExpr)
			if !ok || be.Op != token.EQL && be.Op != token.NEQ {
				continue
			}
			l, r := subst(be.X), subst(be.Y)
			if same(l, sumAs.Lhs[0]) && same(r, readAs.Lhs[0]) || same(l, readAs.Lhs[0]) && same(r, sumAs.Lhs[0]) {
				if (be.Op == token.EQL) == a.Val {
					return 1
				}
				return -1
			}
		}
		return 0
	}
	eq := func(f cfgq.Fact) bool { return established(f) == 1 }
	neq := func(f cfgq.Fact) bool { return established(f) == -1 }
	noErr := func(f cfgq.Fact) bool {
		if f.Val && pat.Expr("_err == nil").Match(info, f.Expr, bd) != nil || !f.Val && pat.Expr("_err != nil").Match(info, f.Expr, bd) != nil {
			return true
		}
		// the error copied into another variable first
		if be, ok := ast.Unparen(f.Expr).(*ast.BinaryExpr); ok && (be.Op == token.EQL) == f.Val && (be.Op == token.EQL || be.Op == token.NEQ) {
			for _, pr := range [][2]ast.Expr{{be.X, be.Y}, {be.Y, be.X}} {
				if core.IsNil(info, pr[1]) && objOf(info, pr[0]) != nil && ds.sameValue(pr[0], readAs.Lhs[1]) {
					return true
				}
			}
		}
		return false
	}
	// success exits: `return nil`, or `return h(...)` where the same-package
	// helper h decides (its own `return nil`s are then judged in h, with h's
	// parameters standing for the arguments)
	type exit struct {
		at     cfgq.Point // in Footer
		hg     *cfgq.Graph
		hp     cfgq.Point // in the helper (if hg != nil)
		params map[types.Object]ast.Expr
	}
	var exits []exit
	for _, p := range g.Points(func(n ast.Node) bool { _, ok := n.(*ast.ReturnStmt); return ok }) {
		r := p.Node().(*ast.ReturnStmt)
		if isNilRet(info)(r) {
			exits = append(exits, exit{at: p})
			continue
		}
		if len(r.Results) != 1 {
			continue
		}
		call, ok := ast.Unparen(r.Results[0]).(*ast.CallExpr)
		hfn := core.CalleeFunc(info, orCall(call))
		if !ok || hfn == nil || hfn.Pkg() != foot.Obj.Pkg() {
			continue
		}
		hf := c.FnOf(hfn)
		ps := hfn.Type().(*types.Signature).Params()
		if hf == nil || hf.Decl.Body == nil || ps.Len() != len(call.Args) {
			continue
		}
		args := map[types.Object]ast.Expr{}
		for i := 0; i < ps.Len(); i++ {
			args[ps.At(i)] = call.Args[i]
		}
		hg := cfgq.Of(c.Program, hf)
		for _, hp := range hg.Points(isNilRet(info)) {
			exits = append(exits, exit{at: p, hg: hg, hp: hp, params: args})
		}
	}
	if len(exits) == 0 {
		c.Undecidedf("R3.footer", "Footer/mismatch-rejected", foot.Decl.Pos(), "Footer has no success return")
		return
	}
	for _, x := range exits {
		p := x.at
		via := func(m func(cfgq.Fact) bool) (bool, []string) {
			if x.hg == nil {
				return onlyVia(g, p, m)
			}
			if ok, w := onlyVia(g, p, m); ok { // already established before the helper is called
				return ok, w
			}
			outer = x.params
			defer func() { outer = nil }()
			return onlyVia(x.hg, x.hp, m)
		}
		ok, w := via(eq)
		switch inv, _ := via(neq); {
		case ok:
			c.Okf("R3.footer", "Footer/mismatch-rejected", p.Node().Pos(), "Footer succeeds only when the computed CRC equals the stored one")
		case inv:
			c.Check("R3.footer", "Footer/mismatch-rejected", p.Node().Pos(), false, "Footer succeeds exactly when the computed and stored CRC DIFFER: every intact RDB is rejected, corrupted ones accepted")
		case uses(info, foot.Decl.Body, objOf(info, readAs.Lhs[0])) == 0 || uses(info, foot.Decl.Body, objOf(info, sumAs.Lhs[0])) == 0:
			c.Check("R3.footer", "Footer/mismatch-rejected", p.Node().Pos(), false, "the computed CRC is never compared with the stored one: an RDB with any corrupted byte is accepted", w...)
		default:
			// positive evidence: assume the two values DIFFER and look for a way to this
			// success exit on which every condition relating the two values is decided by
			// that assumption (conditions about anything else are free inputs)
			if x.hg == nil {
				atom := func(e ast.Expr) (bool, bool) {
					switch established(cfgq.Fact{Expr: e, Val: true}) {
					case 1: // e true would mean "equal"
						return false, true
					case -1:
						return true, true
					}
					return false, false
				}
				// a condition relates the two values when it mentions something derived from
				// each of them (copies and anything computed from them included)
				fromSum, fromRead := ds.derived(objOf(info, sumAs.Lhs[0])), ds.derived(objOf(info, readAs.Lhs[0]))
				both := func(e ast.Expr) bool {
					a, b := false, false
					ast.Inspect(e, func(n ast.Node) bool {
						if id, ok := n.(*ast.Ident); ok {
							a = a || fromSum[info.Uses[id]]
							b = b || fromRead[info.Uses[id]]
						}
						return true
					})
					return a && b
				}
				var residual func(e ast.Expr) ast.Expr
				residual = func(e ast.Expr) ast.Expr {
					e = ast.Unparen(e)
					if be, ok := e.(*ast.BinaryExpr); ok && (be.Op == token.LAND || be.Op == token.LOR) {
						for _, pr := range [][2]ast.Expr{{be.X, be.Y}, {be.Y, be.X}} {
							if pv, pk := ring.EvalUnder(pr[0], atom); pk && pv == (be.Op == token.LAND) {
								return residual(pr[1])
							}
						}
					}
					return e
				}
				tn := p.Node()
				wit := g.Path(cfgq.Query{From: g.Entry(), Target: func(n ast.Node) bool { return n == tn }, AvoidEdge: func(b *cfg.Block, s int) bool {
					cnd := cfgq.CondOf(b)
					if cnd == nil || len(b.Succs) != 2 {
						return false
					}
					if v, known := ring.EvalUnder(cnd, atom); known {
						return (s == 0) != v
					}
					return both(residual(cnd))
				}})
				if wit != nil {
					c.Check("R3.footer", "Footer/mismatch-rejected", p.Node().Pos(), false, "Footer can return success although the computed and the stored CRC differ (the comparison is bypassed under a condition on other values): such a corrupted RDB is accepted", wit...)
					break
				}
			}
			c.Undecidedf("R3.footer", "Footer/mismatch-rejected", p.Node().Pos(), "cannot see that success is returned only when the two CRC values are equal")
		}
		if ok2, _ := onlyVia(g, p, noErr); ok2 {
			c.Okf("R3.footer", "Footer/read-error-rejected", p.Node().Pos(), "a failed/short trailer read fails the footer check")
		} else {
			c.Undecidedf("R3.footer", "Footer/read-error-rejected", p.Node().Pos(), "cannot see that a failed trailer read fails the footer check")
		}
	}
}

// le64: the reader helper reads 8 bytes and decodes them little-endian.
func le64(c *core.Ctx, fn *core.Fn) {
	info := fn.Pkg.TypesInfo
	key := "Footer/trailer-le64"
	for _, call := range core.Calls(fn.Decl.Body, info, func(call *ast.CallExpr, _ types.Object) bool {
		_, ok := byteOrder(info, call, "Uint64")
		return ok
	}) {
		order, _ := byteOrder(info, call, "Uint64")
		buf := origin(info, fn.Decl.Body, call.Args[0])
		n := int64(-1)
		if se, ok := buf.(*ast.SliceExpr); ok && se.High == nil && se.Low == nil {
			if at, isArr := info.TypeOf(se.X).Underlying().(*types.Array); isArr {
				n = at.Len() // raw[:] of `var raw [8]byte`
			}
		}
		if se, ok := buf.(*ast.SliceExpr); ok && se.High != nil {
			lo := int64(0)
			if se.Low != nil {
				lo, _ = core.IntConst(info, se.Low)
			}
			if hi, ok := core.IntConst(info, se.High); ok {
				n = hi - lo
			}
		}
		sameBuf := func(x ast.Expr) bool { return pat.Same(info, strip(info, x), strip(info, call.Args[0])) }
		filled := len(core.Calls(fn.Decl.Body, info, func(rc *ast.CallExpr, o types.Object) bool {
			if o != nil && o.Name() == "readFull" && len(rc.Args) == 1 && sameBuf(rc.Args[0]) {
				return true
			}
			f, _ := o.(*types.Func) // io.ReadFull(r, buf)
			return core.IsFunc(f, "io", "", "ReadFull") && len(rc.Args) == 2 && sameBuf(rc.Args[1])
		})) == 1
		// a single Read(buf) may deliver fewer bytes than asked for without an error
		// (io.Reader's contract; a bufio.Reader does so at every buffer boundary)
		partial := core.Calls(fn.Decl.Body, info, func(rc *ast.CallExpr, o types.Object) bool {
			f, _ := o.(*types.Func)
			if f == nil || f.Name() != "Read" || len(rc.Args) != 1 || !sameBuf(rc.Args[0]) {
				return false
			}
			sig := f.Type().(*types.Signature)
			return sig.Recv() != nil && sig.Results().Len() == 2
		})
		if n == 8 && !filled && len(partial) == 1 {
			c.Check("R3.footer", key, partial[0].Pos(), false,
				fmt.Sprintf("%s fills the 8 checksum bytes with a single %s: Read may return fewer than 8 bytes with a nil error (it does at a buffer boundary of the underlying reader), the stale rest of the buffer is then decoded as the stored CRC and an intact RDB file is rejected; the bytes must be read with readFull / io.ReadFull", fn.Obj.Name(), c.Src(partial[0])))
			return
		}
		if n < 0 || !filled {
			c.Undecidedf("R3.footer", key, call.Pos(), "cannot see that %s fills exactly the decoded 8 bytes", fn.Obj.Name())
			return
		}
		c.Check("R3.footer", key, call.Pos(), order == "LittleEndian" && n == 8,
			fmt.Sprintf("the stored CRC must be read as 8 bytes little-endian (found binary.%s over %d bytes): otherwise it never equals the digest of an intact file", order, n))
		return
	}
	c.Undecidedf("R3.footer", key, fn.Decl.Pos(), "%s does not decode with binary.<order>.Uint64", fn.Obj.Name())
}

func uses(info *types.Info, root ast.Node, o types.Object) int {
	n := 0
	ast.Inspect(root, func(m ast.Node) bool {
		if id, ok := m.(*ast.Ident); ok && o != nil && info.Uses[id] == o {
			n++
		}
		return true
	})
	return n
}

// predBody looks through a call to a same-package function whose body is a
// single `return <expr>`: it returns that expression and, per parameter
// object, the argument passed.
func predBody(c *core.Ctx, from *core.Fn, call *ast.CallExpr) (ast.Expr, map[types.Object]ast.Expr) {
	f := core.CalleeFunc(from.Pkg.TypesInfo, call)
	if f == nil || f.Pkg() != from.Obj.Pkg() {
		return nil, nil
	}
	hf := c.FnOf(f)
	if hf == nil || hf.Decl.Body == nil || len(hf.Decl.Body.List) != 1 {
		return nil, nil
	}
	r, ok := hf.Decl.Body.List[0].(*ast.ReturnStmt)
	ps := f.Type().(*types.Signature).Params()
	if !ok || len(r.Results) != 1 || ps.Len() != len(call.Args) {
		return nil, nil
	}
	args := map[types.Object]ast.Expr{}
	for i := 0; i < ps.Len(); i++ {
		args[ps.At(i)] = call.Args[i]
	}
	return r.Results[0], args
}

// fstore is one value placed into a struct field: `x.f = v`, or an element of a
// composite literal (keyed or positional).
type fstore struct {
	f *types.Var
	v ast.Expr
}

func fieldStores(info *types.Info, body ast.Node) []fstore {
	var out []fstore
	ast.Inspect(body, func(n ast.Node) bool {
		switch x := n.(type) {
		case *ast.AssignStmt:
			if x.Tok != token.ASSIGN && x.Tok != token.DEFINE {
				return true
			}
			for i, l := range x.Lhs {
				if f := core.FieldOf(info, l); f != nil {
					if r := core.AssignedTo(x, i); r != nil {
						out = append(out, fstore{f, r})
					}
				}
			}
		case *ast.CompositeLit:
			t := info.TypeOf(x)
			if t == nil {
				return true
			}
			st, ok := t.Underlying().(*types.Struct)
			if !ok {
				return true
			}
			for i, el := range x.Elts {
				if kv, ok := el.(*ast.KeyValueExpr); ok {
					if id, ok := kv.Key.(*ast.Ident); ok {
						if f, ok := info.Uses[id].(*types.Var); ok && f.IsField() {
							out = append(out, fstore{f, kv.Value})
						}
					}
				} else if i < st.NumFields() {
					out = append(out, fstore{st.Field(i), el})
				}
			}
		}
		return true
	})
	return out
}

// bound is the list of variables a statement binds the results of its call to.
type bound2 struct{ Lhs []ast.Expr }

// boundTo reads `a, b := f()`, `a = f()` and `var a T = f()`: the statement binds
// the results of the call itself (possibly converted), not a value that merely
// contains the call (`x := &T{f: call()}` binds nothing to the result).
func boundTo(info *types.Info, n ast.Node, isCall func(ast.Node) bool) *bound2 {
	direct := func(e ast.Expr) bool {
		call, ok := strip(info, e).(*ast.CallExpr)
		return ok && isCall(&ast.ExprStmt{X: call})
	}
	switch s := n.(type) {
	case *ast.AssignStmt:
		if len(s.Rhs) == 1 && (s.Tok == token.ASSIGN || s.Tok == token.DEFINE) && direct(s.Rhs[0]) {
			return &bound2{Lhs: s.Lhs}
		}
	case *ast.DeclStmt:
		if gd, ok := s.Decl.(*ast.GenDecl); ok && len(gd.Specs) == 1 {
			return boundTo(info, gd.Specs[0], isCall)
		}
	case *ast.ValueSpec:
		if len(s.Values) == 1 && direct(s.Values[0]) {
			b := &bound2{}
			for _, nm := range s.Names {
				b.Lhs = append(b.Lhs, nm)
			}
			return b
		}
	}
	return nil
}

// funSel: the selector a call goes through, also when the method value was bound
// to a local first (`sum := l.crc.Sum64; sum()`).
func funSel(info *types.Info, body ast.Node, call *ast.CallExpr) *ast.SelectorExpr {
	fun := ast.Unparen(call.Fun)
	if o := objOf(info, fun); o != nil {
		if _, isVar := o.(*types.Var); isVar {
			if rhs, other := defsOf(info, body, o); len(rhs) == 1 && other == 0 && rhs[0] != nil {
				fun = ast.Unparen(rhs[0])
			}
		}
	}
	sel, _ := fun.(*ast.SelectorExpr)
	return sel
}
