// Package c11 decides the structural clauses of property C11 (CRC-64 checksums).
package c11

import (
	"fmt"
	"go/ast"
	"go/constant"
	"go/token"
	"go/types"
	"math/bits"
	"rscheck/rules/reent"
	"strings"

	"golang.org/x/tools/go/packages"

	"rscheck/core"
	"rscheck/driver"
	"rscheck/pat"
)

const (
	pkgDigest = "pkg/rdb/digest"
	pkgCupIn  = "pkg/libs/cupcake/rdb/crc64"
	pkgCupMod = "github.com/cupcake/rdb/crc64"
	pkgRdb    = "pkg/rdb"
	pkgCupRdb = "pkg/libs/cupcake/rdb"
	pkgCommon = "redis-shake/common"
	jonesPoly = 0xad93d23594c935a9
)

var Def = driver.PropDef{
	ID: "C11",
	Explanation: "Structural necessary conditions of the CRC-64 checksums: " +
		"R1 the three 256-entry tables (pkg/rdb/digest, in-repo cupcake crc64, linked module-cache cupcake crc64) equal the table generated from the Jones polynomial 0xad93d23594c935a9, reflected; " +
		"R2 the per-byte step is crc = table[low8(crc ^ b)] ^ (crc >> 8) over every byte in order, the running value lives in one field across Write calls, every start value is 0, Sum encodes little-endian; " +
		"R3 verification sites: Loader.Footer takes Sum64 of the tee'd digest before reading the little-endian trailer and rejects a mismatch; verifyDump and CheckVersionChecksum reject len < 10 before indexing, read version at len-10 (LE16) and CRC at len-8 (LE64), digest d[:len-8], reject mismatch and unsupported versions; " +
		"R4 no shift discards its whole operand when integers are assembled; " +
		"R5 trailer creation: createValueDump and EncodeDumpFooter write version (LE16) then the checksum of a digest fed by the same MultiWriter as the payload, nothing after it, and the versions written are accepted by the tool's own checkers.",
	NotDecided: "the error-detection power of CRC-64 itself (every single-byte substitution changes the CRC); equality of computed values beyond table/step/plumbing agreement.",
	Trusted:    []string{"go/parser, go/types, go/cfg (x/tools v0.29.0)", "encoding/binary.LittleEndian, io.TeeReader, io.MultiWriter, bytes.Buffer semantics"},
	Run:        Run,
}

// crcPkg is what R1/R2 learn about one CRC-64 implementation.
type crcPkg struct {
	path, short string
	pk          *packages.Package
	stepFn      *core.Fn
	typ         *types.Named // the hash.Hash64 implementation
	field       *types.Var   // its running-value field
	newFns      map[*types.Func]bool
	digestFns   map[*types.Func]bool // one-shot functions step(0, b)
}

type env struct {
	c      *core.Ctx
	crcs   []*crcPkg
	bounds []bound // what the payload checkers demand of the trailer version
}

func (e *env) isNew(f *types.Func) bool {
	for _, p := range e.crcs {
		if f != nil && p.newFns[f] {
			return true
		}
	}
	return false
}

func (e *env) isDigest(f *types.Func) bool {
	for _, p := range e.crcs {
		if f != nil && p.digestFns[f] {
			return true
		}
	}
	return false
}

func reentrant(c *core.Ctx) {
	var roots []*core.Fn
	for _, n := range []string{"NextBinEntry", "Header", "Footer"} {
		if f := c.FuncOpt("pkg/rdb", "Loader", n); f != nil {
			roots = append(roots, f)
		}
	}
	for _, n := range []string{"NewLoader", "createValueDump", "DecodeDump", "EncodeDump"} {
		if f := c.FuncOpt("pkg/rdb", "", n); f != nil {
			roots = append(roots, f)
		}
	}
	reent.Check(c, "R10.reentrant", roots, []string{"pkg/rdb", "pkg/rdb/digest", "pkg/libs/cupcake/rdb", "pkg/libs/cupcake/rdb/crc64"}, "one loader per source node / parallel workers")
}

func Run(c *core.Ctx) {
	defer reentrant(c)
	withViews(c, run)
}

func run(c *core.Ctx) {
	ref := jonesTable()
	e := &env{c: c}
	for _, p := range [][2]string{{pkgDigest, "digest"}, {pkgCupIn, "cupcake-local"}, {pkgCupMod, "cupcake"}} {
		pk := c.Pkg(p[0])
		if pk == nil || pk.TypesInfo == nil {
			c.Undecidedf("anchor", p[0], token.NoPos, "package %s not loaded", p[0])
			continue
		}
		cp := &crcPkg{path: p[0], short: p[1], pk: pk, newFns: map[*types.Func]bool{}, digestFns: map[*types.Func]bool{}}
		e.crcs = append(e.crcs, cp)
		if tab := step(c, cp); tab != nil {
			table(c, pk, tab, cp.short+"."+tab.Name(), ref)
		}
		state(c, cp)
		for _, fn := range funcsOf(pk) {
			shifts(c, fn, cp.short, false)
		}
	}
	c.Expect("R1.table", 3)
	c.Expect("R2.step", 12)
	c.Expect("R2.state", 12)

	footer(e)
	c.Expect("R3.footer", 5)
	for _, a := range [][2]string{{pkgCupRdb, "verifyDump"}, {pkgCommon, "CheckVersionChecksum"}} {
		if fn := c.Func(a[0], "", a[1]); fn != nil {
			verifier(e, fn)
			shifts(c, fn, fn.Obj.Pkg().Name(), true)
		}
	}
	c.Expect("R3.verify", 14)
	trailers(e)
	c.Expect("R4.shift", 4)
}

func jonesTable() [256]uint64 {
	poly := bits.Reverse64(jonesPoly)
	var t [256]uint64
	for i := range t {
		crc := uint64(i)
		for k := 0; k < 8; k++ {
			if crc&1 != 0 {
				crc = crc>>1 ^ poly
			} else {
				crc >>= 1
			}
		}
		t[i] = crc
	}
	return t
}

// ---------------------------------------------------------------------------
// helpers

func funcsOf(pk *packages.Package) []*core.Fn {
	var out []*core.Fn
	for _, f := range pk.Syntax {
		for _, d := range f.Decls {
			if fd, ok := d.(*ast.FuncDecl); ok && fd.Body != nil {
				if obj, ok := pk.TypesInfo.Defs[fd.Name].(*types.Func); ok {
					out = append(out, &core.Fn{Obj: obj, Decl: fd, Pkg: pk})
				}
			}
		}
	}
	return out
}

// fname is <label>.<Func> or <label>.<Recv>.<Method>.
func fname(fn *core.Fn, label string) string {
	if r := fn.Obj.Type().(*types.Signature).Recv(); r != nil {
		return label + "." + core.NamedTypeName(r.Type()) + "." + fn.Obj.Name()
	}
	return label + "." + fn.Obj.Name()
}

// strip removes parentheses and type conversions.
func strip(info *types.Info, e ast.Expr) ast.Expr {
	for {
		e = ast.Unparen(e)
		call, ok := e.(*ast.CallExpr)
		if !ok || len(call.Args) != 1 {
			return e
		}
		if tv, ok := info.Types[call.Fun]; !ok || !tv.IsType() {
			return e
		}
		e = call.Args[0]
	}
}

func objOf(info *types.Info, e ast.Expr) types.Object {
	if e == nil {
		return nil
	}
	if id, ok := ast.Unparen(e).(*ast.Ident); ok {
		return core.ObjOf(info, id)
	}
	return nil
}

func width(info *types.Info, e ast.Expr) int64 {
	t := info.TypeOf(e)
	if t == nil {
		return 0
	}
	b, ok := t.Underlying().(*types.Basic)
	if !ok || b.Info()&types.IsInteger == 0 || b.Info()&types.IsUntyped != 0 {
		return 0
	}
	return types.SizesFor("gc", "amd64").Sizeof(b) * 8
}

// valueBits bounds the number of significant bits of the non-negative value of
// e from its construction: a conversion of an unsigned operand keeps the
// operand's bits, a mask with a non-negative constant keeps the mask's. It
// falls back to the width of the type (also for anything that may be negative).
func valueBits(info *types.Info, e ast.Expr) int64 {
	e = ast.Unparen(e)
	w := width(info, e)
	if w == 0 {
		return 0
	}
	unsigned := func(x ast.Expr) bool {
		b, ok := info.TypeOf(x).Underlying().(*types.Basic)
		return ok && b.Info()&types.IsUnsigned != 0
	}
	switch x := e.(type) {
	case *ast.CallExpr:
		if tv, isT := info.Types[x.Fun]; isT && tv.IsType() && len(x.Args) == 1 && width(info, x.Args[0]) != 0 && unsigned(x.Args[0]) {
			// fits without touching the sign bit of a signed target
			if in := valueBits(info, x.Args[0]); in > 0 && (in < w || in == w && unsigned(e)) {
				return in
			}
		}
	case *ast.BinaryExpr:
		if x.Op == token.AND {
			for _, pr := range [][2]ast.Expr{{x.X, x.Y}, {x.Y, x.X}} {
				if m, ok := core.IntConst(info, pr[1]); ok && m >= 0 && width(info, pr[0]) != 0 {
					if n := int64(bits.Len64(uint64(m))); n < w {
						return n
					}
				}
			}
		}
	}
	return w
}

func shiftOf(info *types.Info, e ast.Expr) (x ast.Expr, op token.Token, k int64, ok bool) {
	be, isBin := strip(info, e).(*ast.BinaryExpr)
	if !isBin || be.Op != token.SHL && be.Op != token.SHR {
		return nil, 0, 0, false
	}
	k, ok = core.IntConst(info, be.Y)
	return strip(info, be.X), be.Op, k, ok
}

var bitOps = map[token.Token]bool{token.OR: true, token.AND: true, token.ADD: true, token.SUB: true, token.AND_NOT: true, token.XOR: true}

// defsOf returns the right-hand sides assigned to obj under root (nil for a
// zero-value declaration) and the number of other writes (op-assign, ++, range).
func defsOf(info *types.Info, root ast.Node, obj types.Object) (rhs []ast.Expr, other int) {
	ast.Inspect(root, func(n ast.Node) bool {
		switch s := n.(type) {
		case *ast.AssignStmt:
			for i, l := range s.Lhs {
				if objOf(info, l) != obj {
					continue
				}
				if r := core.AssignedTo(s, i); r != nil && (s.Tok == token.ASSIGN || s.Tok == token.DEFINE) {
					rhs = append(rhs, r)
				} else if len(s.Rhs) == 1 && (s.Tok == token.ASSIGN || s.Tok == token.DEFINE) {
					rhs = append(rhs, s.Rhs[0]) // x, err := f()
				} else {
					other++
				}
			}
		case *ast.IncDecStmt:
			if objOf(info, s.X) == obj {
				other++
			}
		case *ast.ValueSpec:
			for i, nm := range s.Names {
				if info.Defs[nm] == obj {
					if i < len(s.Values) {
						rhs = append(rhs, s.Values[i])
					} else {
						rhs = append(rhs, nil)
					}
				}
			}
		case *ast.RangeStmt:
			if objOf(info, s.Key) == obj && obj != nil || objOf(info, s.Value) == obj && obj != nil {
				other++
			}
		}
		return true
	})
	return
}

// origin follows single-assignment locals back to the defining expression.
func origin(info *types.Info, root ast.Node, e ast.Expr) ast.Expr {
	for i := 0; i < 4; i++ {
		e = strip(info, e)
		o := objOf(info, e)
		if o == nil {
			return e
		}
		rhs, other := defsOf(info, root, o)
		if len(rhs) != 1 || other != 0 || rhs[0] == nil {
			return e
		}
		e = rhs[0]
	}
	return e
}

// deadLits: function literals bound to a local that is never used again except
// in `_ = f` (what is left of a closure argument once the calls through it were
// expanded in place).
func deadLits(info *types.Info, body ast.Node) map[*ast.FuncLit]bool {
	out := map[*ast.FuncLit]bool{}
	bind := func(o types.Object, v ast.Expr) {
		lit, ok := ast.Unparen(v).(*ast.FuncLit)
		if !ok || o == nil {
			return
		}
		live := false
		var stack []ast.Node
		ast.Inspect(body, func(n ast.Node) bool {
			if n == nil {
				stack = stack[:len(stack)-1]
				return true
			}
			stack = append(stack, n)
			if id, isId := n.(*ast.Ident); isId && info.Uses[id] == o {
				blank := false
				if len(stack) >= 2 {
					if as, isAs := stack[len(stack)-2].(*ast.AssignStmt); isAs && len(as.Lhs) == 1 && len(as.Rhs) == 1 && as.Rhs[0] == ast.Expr(id) {
						if b, isB := as.Lhs[0].(*ast.Ident); isB && b.Name == "_" {
							blank = true
						}
					}
				}
				if !blank {
					live = true
				}
			}
			return true
		})
		if !live {
			out[lit] = true
		}
	}
	ast.Inspect(body, func(n ast.Node) bool {
		switch s := n.(type) {
		case *ast.AssignStmt:
			if len(s.Lhs) == len(s.Rhs) && s.Tok == token.DEFINE {
				for i, l := range s.Lhs {
					if id, ok := l.(*ast.Ident); ok {
						bind(info.Defs[id], s.Rhs[i])
					}
				}
			}
		case *ast.ValueSpec:
			if len(s.Names) == len(s.Values) {
				for i, nm := range s.Names {
					bind(info.Defs[nm], s.Values[i])
				}
			}
		}
		return true
	})
	return out
}

// ---------------------------------------------------------------------------
// R2 step, R1 table

func step(c *core.Ctx, cp *crcPkg) *types.Var {
	info := cp.pk.TypesInfo
	var as *ast.AssignStmt
	var idx *ast.IndexExpr
	count := 0
	for _, fn := range funcsOf(cp.pk) {
		dead := deadLits(info, fn.Decl.Body)
		ast.Inspect(fn.Decl.Body, func(n ast.Node) bool {
			if lit, isLit := n.(*ast.FuncLit); isLit && dead[lit] {
				return false // never called: what it contains is not executed
			}
			s, ok := n.(*ast.AssignStmt)
			if !ok {
				return true
			}
			ast.Inspect(s, func(m ast.Node) bool {
				if ie, ok := m.(*ast.IndexExpr); ok {
					if v, ok := objOf(info, ie.X).(*types.Var); ok && v.Parent() == v.Pkg().Scope() {
						if at, ok := v.Type().Underlying().(*types.Array); ok && at.Len() == 256 {
							as, idx, cp.stepFn = s, ie, fn
							count++
						}
					}
				}
				return true
			})
			return true
		})
	}
	name := cp.short
	und := func(what, f string, a ...interface{}) {
		c.Undecidedf("R2.step", name+"/"+what, token.NoPos, f, a...)
	}
	if count != 1 || len(as.Lhs) != 1 || len(as.Rhs) != 1 || as.Tok != token.ASSIGN {
		cp.stepFn = nil
		und("skeleton", "expected exactly one plain assignment indexing a 256-entry package-level table in %s, found %d", cp.path, count)
		return nil
	}
	fn := cp.stepFn
	name = cp.short + "." + fn.Decl.Name.Name
	tab := objOf(info, idx.X).(*types.Var)
	lhs := as.Lhs[0]
	same := func(e ast.Expr) bool { return pat.Same(info, strip(info, e), ast.Unparen(lhs)) }
	top, ok := ast.Unparen(as.Rhs[0]).(*ast.BinaryExpr)
	if !ok {
		und("skeleton", "right-hand side of the table step is not a binary expression: %s", c.Src(as))
		return tab
	}
	var shiftSide ast.Expr
	switch {
	case ast.Unparen(top.X) == ast.Expr(idx):
		shiftSide = top.Y
	case ast.Unparen(top.Y) == ast.Expr(idx):
		shiftSide = top.X
	default:
		und("skeleton", "table lookup is not a direct operand of the step: %s", c.Src(as))
		return tab
	}
	if top.Op == token.XOR {
		c.Okf("R2.step", name+"/combine", as.Pos(), "table entry and shifted accumulator are combined with ^")
	} else if bitOps[top.Op] {
		c.Failf("R2.step", name+"/combine", as.Pos(), "table entry is combined with %q instead of ^: the value is not the Redis CRC-64, intact RDB files/payloads are rejected and emitted payloads are refused by Redis; %s", top.Op, c.Src(as))
	} else {
		und("combine", "unrecognised combination %s", c.Src(as))
	}
	if x, op, k, ok := shiftOf(info, shiftSide); !ok {
		und("shift", "unrecognised accumulator operand %s", c.Src(shiftSide))
	} else {
		c.Check("R2.step", name+"/shift", as.Pos(), op == token.SHR && k == 8 && same(x),
			fmt.Sprintf("the accumulator term must be %s >> 8 (found %s): otherwise the value is not the reflected Jones CRC-64", c.Src(lhs), c.Src(shiftSide)))
	}
	// index = low 8 bits of (crc ^ b)
	var bexpr ast.Expr
	ie := ast.Unparen(idx.Index)
	if o := objOf(info, ie); o != nil { // idx := byte(crc) ^ b, named before the lookup
		if rhs, other := defsOf(info, fn.Decl.Body, o); len(rhs) == 1 && other == 0 && rhs[0] != nil {
			ie = ast.Unparen(rhs[0])
		}
	}
	mask8 := width(info, ie) == 8
	e := strip(info, ie)
	if be, ok := e.(*ast.BinaryExpr); ok && be.Op == token.AND {
		if m, isC := core.IntConst(info, be.Y); isC {
			if m != 0xff {
				c.Failf("R2.step", name+"/index", as.Pos(), "table index is masked with %#x instead of 0xff: wrong table entries are selected; %s", m, c.Src(idx.Index))
				return tab
			}
			mask8, e = true, strip(info, be.X)
		}
	}
	be, ok := e.(*ast.BinaryExpr)
	if !ok || !bitOps[be.Op] || !mask8 {
		und("index", "unrecognised table index %s", c.Src(idx.Index))
	} else {
		low := func(x ast.Expr) bool { // byte(crc), crc&0xff, crc
			x = strip(info, x)
			if m, ok := x.(*ast.BinaryExpr); ok && m.Op == token.AND {
				if v, isC := core.IntConst(info, m.Y); isC && v == 0xff {
					x = strip(info, m.X)
				}
			}
			return same(x)
		}
		switch {
		case low(be.X):
			bexpr = strip(info, be.Y)
		case low(be.Y):
			bexpr = strip(info, be.X)
		}
		if bexpr == nil {
			und("index", "unrecognised table index %s", c.Src(idx.Index))
		} else {
			c.Check("R2.step", name+"/index", as.Pos(), be.Op == token.XOR,
				fmt.Sprintf("the table index must be the low byte of (%s ^ b) (found %s): otherwise the value is not the Redis CRC-64", c.Src(lhs), c.Src(idx.Index)))
		}
	}
	if bexpr != nil {
		stepLoop(c, fn, name, as, bexpr)
	}
	return tab
}

func stepLoop(c *core.Ctx, fn *core.Fn, name string, as *ast.AssignStmt, b ast.Expr) {
	info := fn.Pkg.TypesInfo
	und := func(f string, a ...interface{}) { c.Undecidedf("R2.step", name+"/loop", as.Pos(), f, a...) }
	var loop ast.Stmt
	for _, n := range core.PathTo(fn.Decl.Body, as) {
		switch s := n.(type) {
		case *ast.ForStmt, *ast.RangeStmt:
			loop = s.(ast.Stmt)
		}
	}
	isParam := func(e ast.Expr) bool {
		v, ok := objOf(info, e).(*types.Var)
		sig := fn.Obj.Type().(*types.Signature)
		for i := 0; ok && i < sig.Params().Len(); i++ {
			if sig.Params().At(i) == v {
				return true
			}
		}
		return false
	}
	// the byte may be named first inside the loop (`b := p[i]`), as left by expanding a step(acc, b) helper
	if o := objOf(info, b); o != nil && loop != nil {
		if rhs, other := defsOf(info, loop, o); len(rhs) == 1 && other == 0 && rhs[0] != nil {
			if r2, _ := defsOf(info, fn.Decl.Body, o); len(r2) == 1 {
				b = strip(info, rhs[0])
			}
		}
	}
	switch l := loop.(type) {
	case *ast.ForStmt:
		ie, ok := b.(*ast.IndexExpr)
		if !ok || !isParam(ie.X) || l.Cond == nil {
			und("byte operand %s is not an element of the input indexed by a counting loop", c.Src(b))
			return
		}
		start, stride, toLen, okH := countLoop(info, fn.Decl.Body, l, objOf(info, strip(info, ie.Index)), ie.X)
		switch {
		case !okH:
			und("unrecognised loop header around the step")
		case start != 0 || stride > 1:
			c.Check("R2.step", name+"/loop", l.Pos(), false, fmt.Sprintf("the step must be applied to every byte p[0..len) once, in order (loop starts at %d, stride %d): a skipped byte is not covered by the checksum, so its corruption is not detected", start, stride))
		case stride == 1 && toLen:
			c.Okf("R2.step", name+"/loop", l.Pos(), "the step is applied to every byte of the input in order")
		default:
			und("unrecognised loop header around the step")
		}
	case *ast.RangeStmt:
		if !isParam(l.X) || l.Value == nil || objOf(info, b) == nil || objOf(info, b) != objOf(info, l.Value) {
			und("byte operand %s is not the range value of the input", c.Src(b))
			return
		}
		_, isSlice := info.TypeOf(l.X).Underlying().(*types.Slice)
		if isSlice {
			c.Okf("R2.step", name+"/loop", l.Pos(), "the step is applied to every byte of the input slice in order")
		} else {
			und("input %s is not a byte slice", c.Src(l.X))
		}
	default:
		und("the step is not inside a loop over the input")
	}
}

func uint64Const(info *types.Info, e ast.Expr) (uint64, bool) {
	tv, ok := info.Types[e]
	if !ok || tv.Value == nil {
		return 0, false
	}
	v := constant.ToInt(tv.Value)
	if v.Kind() != constant.Int {
		return 0, false
	}
	return constant.Uint64Val(v)
}

func varInit(pk *packages.Package, v types.Object) ast.Expr {
	for _, f := range pk.Syntax {
		for _, d := range f.Decls {
			gd, ok := d.(*ast.GenDecl)
			if !ok {
				continue
			}
			for _, sp := range gd.Specs {
				if vs, ok := sp.(*ast.ValueSpec); ok {
					for i, nm := range vs.Names {
						if pk.TypesInfo.Defs[nm] == v && i < len(vs.Values) {
							return vs.Values[i]
						}
					}
				}
			}
		}
	}
	return nil
}

func table(c *core.Ctx, pk *packages.Package, tab *types.Var, name string, ref [256]uint64) {
	info := pk.TypesInfo
	lit, _ := ast.Unparen(orIdent(varInit(pk, tab))).(*ast.CompositeLit)
	if lit == nil {
		c.Undecidedf("R1.table", name, tab.Pos(), "table %s is not initialised by a composite literal", name)
		return
	}
	var bad []string
	next, seen := int64(0), 0
	for _, el := range lit.Elts {
		val := el
		if kv, ok := el.(*ast.KeyValueExpr); ok {
			k, ok := core.IntConst(info, kv.Key)
			if !ok {
				c.Undecidedf("R1.table", name, el.Pos(), "non-constant key in table literal")
				return
			}
			next, val = k, kv.Value
		}
		v, ok := uint64Const(info, val)
		if !ok || next < 0 || next > 255 {
			c.Undecidedf("R1.table", name, el.Pos(), "table element %d is not a constant in range", next)
			return
		}
		if v != ref[next] {
			bad = append(bad, fmt.Sprintf("[%d]=%#016x want %#016x", next, v, ref[next]))
		}
		next++
		seen++
	}
	if seen != 256 {
		bad = append(bad, fmt.Sprintf("%d of 256 entries given", seen))
	}
	for _, f := range pk.Syntax {
		ast.Inspect(f, func(n ast.Node) bool {
			if as, ok := n.(*ast.AssignStmt); ok {
				for _, l := range as.Lhs {
					if ie, ok := ast.Unparen(l).(*ast.IndexExpr); ok && objOf(info, ie.X) == tab || objOf(info, l) == tab {
						bad = append(bad, "table is assigned at run time at "+c.Pos(as.Pos()))
					}
				}
			}
			return true
		})
	}
	d := "all 256 entries equal the reflected table generated from the Jones polynomial 0xad93d23594c935a9"
	if len(bad) > 0 {
		if len(bad) > 3 {
			bad = append(bad[:3], fmt.Sprintf("... %d more", len(bad)-3))
		}
		d = "table differs from the Redis CRC-64 (Jones, reflected) table: " + strings.Join(bad, "; ") + " - any data containing a byte that selects such an entry gets a checksum Redis does not compute: intact files are rejected, emitted payloads are refused"
	}
	c.Check("R1.table", name, lit.Pos(), len(bad) == 0, d)
}

func orIdent(e ast.Expr) ast.Expr {
	if e == nil {
		return &ast.Ident{Name: "_"}
	}
	return e
}

// ---------------------------------------------------------------------------
// R4 shifts

func shifts(c *core.Ctx, fn *core.Fn, label string, always bool) {
	info := fn.Pkg.TypesInfo
	var bad []string
	n := 0
	var pos token.Pos
	ast.Inspect(fn.Decl.Body, func(m ast.Node) bool {
		be, ok := m.(*ast.BinaryExpr)
		if !ok || be.Op != token.SHL && be.Op != token.SHR {
			return true
		}
		k, isC := core.IntConst(info, be.Y)
		w := width(info, be.X)
		if tv := info.Types[be.X]; !isC || w == 0 || tv.Value != nil {
			return true
		}
		n++
		// to the right, what counts is how many bits the operand can have, not how wide
		// its type is: uint(b) >> 8 of a byte b is 0 just as b >> 8 is
		if vb := valueBits(info, be.X); be.Op == token.SHR && vb < w && k >= vb {
			bad = append(bad, fmt.Sprintf("%s shifts an operand of at most %d significant bits right by %d and is always 0", c.Src(be), vb, k))
			if pos == token.NoPos {
				pos = be.Pos()
			}
		} else if k >= w {
			bad = append(bad, fmt.Sprintf("%s shifts a %d-bit operand by %d and is always 0", c.Src(be), w, k))
			if pos == token.NoPos {
				pos = be.Pos()
			}
		}
		return true
	})
	if n == 0 && !always {
		return
	}
	if pos == token.NoPos {
		pos = fn.Decl.Pos()
	}
	c.Check("R4.shift", fname(fn, label), pos, len(bad) == 0,
		fmt.Sprintf("%d constant shift(s); none may discard its whole operand. %s", n, consequence(bad)))
}

func consequence(bad []string) string {
	if len(bad) == 0 {
		return ""
	}
	return strings.Join(bad, "; ") + ": the byte it was meant to contribute is lost (a 16-bit trailer version 0x0106 is read as 6 and accepted)"
}

// countLoop reads a counting loop over buf with index variable idx: the
// constant it starts from, its stride, and whether it runs while idx < len(buf)
// (the bound may be hoisted into a local, also in the loop's own init:
// `for i, n := 0, len(buf); i < n; i++`).
func countLoop(info *types.Info, body ast.Node, l *ast.ForStmt, idx types.Object, buf ast.Expr) (start, stride int64, toLen, ok bool) {
	if l.Cond == nil || idx == nil {
		return 0, 0, false, false
	}
	if l.Init == nil && l.Post == nil {
		// `i := 0; for i < len(buf) { ...; i++ }`: the index starts at its only
		// other assignment and is advanced by the last statement of the body
		var start0 ast.Expr
		nInit := 0
		ast.Inspect(body, func(n ast.Node) bool {
			if as, ok := n.(*ast.AssignStmt); ok && len(as.Lhs) == len(as.Rhs) && (as.Tok == token.DEFINE || as.Tok == token.ASSIGN) {
				for i, lh := range as.Lhs {
					if objOf(info, lh) == idx {
						start0 = as.Rhs[i]
						nInit++
					}
				}
			}
			return true
		})
		list := l.Body.List
		if nInit != 1 || len(list) == 0 || start0 == nil || start0.Pos() > l.Pos() {
			return 0, 0, false, false
		}
		incs := 0
		ast.Inspect(l.Body, func(n ast.Node) bool {
			switch st := n.(type) {
			case *ast.IncDecStmt:
				if objOf(info, st.X) == idx {
					incs++
				}
			case *ast.AssignStmt:
				for _, lh := range st.Lhs {
					if objOf(info, lh) == idx {
						incs++
					}
				}
			case *ast.BranchStmt:
				if st.Tok == token.CONTINUE {
					incs += 2 // a continue may skip the increment
				}
			}
			return true
		})
		if incs != 1 {
			return 0, 0, false, false
		}
		l = &ast.ForStmt{For: l.For, Init: &ast.AssignStmt{Lhs: []ast.Expr{identFor(info, l.Cond, idx)}, Tok: token.DEFINE, Rhs: []ast.Expr{start0}}, Cond: l.Cond, Post: list[len(list)-1], Body: l.Body}
		if l.Init.(*ast.AssignStmt).Lhs[0] == nil {
			return 0, 0, false, false
		}
	}
	if l.Init == nil || l.Post == nil {
		return 0, 0, false, false
	}
	init, isAs := l.Init.(*ast.AssignStmt)
	cond, isBin := ast.Unparen(l.Cond).(*ast.BinaryExpr)
	if !isAs || !isBin || len(init.Lhs) != len(init.Rhs) {
		return 0, 0, false, false
	}
	pos := -1
	for i, lh := range init.Lhs {
		if objOf(info, lh) == idx {
			pos = i
		}
	}
	if pos < 0 {
		return 0, 0, false, false
	}
	start, ok = core.IntConst(info, init.Rhs[pos])
	if !ok {
		return 0, 0, false, false
	}
	bd := pat.Binds{"_i": init.Lhs[pos]}
	switch {
	case pat.Stmt("_i++").Match(info, l.Post, bd) != nil:
		stride = 1
	default:
		b := pat.Stmt("_i += _k").Match(info, l.Post, bd)
		if b == nil {
			b = pat.Stmt("_i = _i + _k").Match(info, l.Post, bd)
		}
		if b == nil {
			return 0, 0, false, false
		}
		if stride, ok = core.IntConst(info, b["_k"].(ast.Expr)); !ok {
			return 0, 0, false, false
		}
	}
	bound, op := cond.Y, cond.Op
	if objOf(info, strip(info, cond.Y)) == idx {
		bound = cond.X
		op = map[token.Token]token.Token{token.GTR: token.LSS, token.NEQ: token.NEQ}[op]
	} else if objOf(info, strip(info, cond.X)) != idx {
		return 0, 0, false, false
	}
	bound = strip(info, bound)
	if o := objOf(info, bound); o != nil { // hoisted bound
		for i, lh := range init.Lhs {
			if objOf(info, lh) == o {
				bound = strip(info, init.Rhs[i])
			}
		}
		if objOf(info, bound) == o {
			if rhs, other := defsOf(info, body, o); len(rhs) == 1 && other == 0 && rhs[0] != nil {
				bound = strip(info, rhs[0])
			}
		}
	}
	toLen = (op == token.LSS || op == token.NEQ) && pat.Expr("len(_buf)").Match(info, bound, pat.Binds{"_buf": buf}) != nil
	return start, stride, toLen, true
}

// identFor returns an identifier inside e that denotes o.
func identFor(info *types.Info, e ast.Expr, o types.Object) ast.Expr {
	var out ast.Expr
	ast.Inspect(e, func(n ast.Node) bool {
		if id, ok := n.(*ast.Ident); ok && info.Uses[id] == o && out == nil {
			out = id
		}
		return true
	})
	return out
}
