package c11

import (
	"go/ast"

	"golang.org/x/tools/go/cfg"

	"rscheck/cfgq"
)

// edgeFacts returns the atoms whose truth value is known after leaving block
// b through successor succ. Besides if/for conditions (what cfgq reads) it
// reads the case expressions of tagless switch statements, so that rewriting
// an if chain as `switch { case cond: ... }` does not change a verdict.
func edgeFacts(g *cfgq.Graph, b *cfg.Block, succ int) []cfgq.Fact {
	cond := cfgq.CondOf(b)
	if cond == nil {
		return nil
	}
	if b.Succs[0].Kind == cfg.KindSwitchCaseBody {
		clause, _ := b.Succs[0].Stmt.(*ast.CaseClause)
		tagless := false
		ast.Inspect(g.Body, func(n ast.Node) bool {
			if sw, ok := n.(*ast.SwitchStmt); ok && sw.Tag == nil {
				for _, cl := range sw.Body.List {
					if cl == ast.Stmt(clause) && clause != nil {
						tagless = true
					}
				}
			}
			return !tagless
		})
		if !tagless {
			return nil
		}
	} else if b.Kind == cfg.KindSwitchNextCase {
		return nil
	}
	return cfgq.Facts(cond, succ == 0)
}

func edgeHas(g *cfgq.Graph, b *cfg.Block, succ int, match func(cfgq.Fact) bool) bool {
	for _, f := range edgeFacts(g, b, succ) {
		if match(f) {
			return true
		}
	}
	return false
}

// onlyVia reports whether every path from the entry to target leaves some
// branch through an edge establishing a fact accepted by match.
func onlyVia(g *cfgq.Graph, target cfgq.Point, match func(cfgq.Fact) bool) (bool, []string) {
	tn := target.Node()
	w := g.Path(cfgq.Query{
		From:      g.Entry(),
		Target:    func(n ast.Node) bool { return n == tn },
		AvoidEdge: func(b *cfg.Block, s int) bool { return edgeHas(g, b, s, match) },
	})
	return w == nil, w
}
