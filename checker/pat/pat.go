// Package pat is a small typed-AST pattern matcher used by the rule files.
//
// A pattern is Go expression or statement syntax. Identifiers that start with
// an underscore followed by a letter (_p, _n, _err) are metavariables: the
// first occurrence binds to the matched sub-tree, later occurrences must match
// a sub-tree denoting the same thing (same objects, same structure). All other
// identifiers match an identifier of the same name (field names, package
// names, builtins, functions), so locals of the analysed code are always
// written as metavariables and renaming them never changes a verdict.
// Parentheses are ignored; + * & | ^ == != && || are matched commutatively and
// a<b matches b>a (likewise <=, >=). The blank pattern identifier `_` matches
// anything.
package pat

import (
	"fmt"
	"go/ast"
	"go/constant"
	"go/parser"
	"go/token"
	"go/types"
	"reflect"
	"strings"
)

// ---------------------------------------------------------------------------
// local-variable transparency: a local that is defined exactly once (x := e or
// var x = e), never re-assigned, never incremented and whose address is never
// taken stands for its defining expression. When a structured pattern meets an
// identifier naming such a local, the pattern is matched against the
// definition instead, so that introducing or removing a temporary does not
// change a verdict.

var localDefs = map[types.Object]ast.Expr{}

// TupleDef is result #Index of Call.
type TupleDef struct {
	Call  *ast.CallExpr
	Index int
}

var tupleDefs = map[types.Object]TupleDef{}

// unstableVars: variables that are assigned after their definition, incremented,
// ranged over or have their address taken (a name that stands for another
// variable is followed only to a variable that is not one of these).
var unstableVars = map[types.Object]bool{}

// RegisterPackage records the transparent locals of one package.
func RegisterPackage(info *types.Info, files []*ast.File) {
	if info == nil {
		return
	}
	count := map[types.Object]int{}
	def := map[types.Object]ast.Expr{}
	tdef := map[types.Object]TupleDef{}
	opaque := map[types.Object]bool{}
	type reas struct {
		as *ast.AssignStmt
		i  int
	}
	reassign := map[types.Object][]reas{}
	zeroDecl := map[types.Object]*ast.ValueSpec{}
	objOf := func(e ast.Expr) types.Object {
		id, ok := e.(*ast.Ident)
		if !ok {
			return nil
		}
		if o := info.Defs[id]; o != nil {
			return o
		}
		return info.Uses[id]
	}
	for _, f := range files {
		ast.Inspect(f, func(n ast.Node) bool {
			switch x := n.(type) {
			case *ast.AssignStmt:
				for i, l := range x.Lhs {
					o := objOf(l)
					if o == nil {
						continue
					}
					if x.Tok == token.DEFINE && info.Defs[l.(*ast.Ident)] != nil {
						count[o]++
						if len(x.Lhs) == len(x.Rhs) {
							def[o] = x.Rhs[i]
						} else if call, isCall := ast.Unparen(x.Rhs[0]).(*ast.CallExpr); isCall && len(x.Rhs) == 1 {
							tdef[o] = TupleDef{call, i}
						} else {
							opaque[o] = true
						}
					} else if x.Tok == token.ASSIGN {
						// re-assigned; a local declared without a value and assigned exactly
						// once, unconditionally, is judged after the walk
						reassign[o] = append(reassign[o], reas{x, i})
					} else {
						opaque[o] = true
					}
				}
			case *ast.ValueSpec:
				for i, nm := range x.Names {
					o := info.Defs[nm]
					if o == nil {
						continue
					}
					count[o]++
					if len(x.Values) == len(x.Names) {
						def[o] = x.Values[i]
					} else if len(x.Values) == 0 {
						zeroDecl[o] = x
					} else {
						opaque[o] = true
					}
				}
			case *ast.IncDecStmt:
				if o := objOf(x.X); o != nil {
					opaque[o] = true
				}
			case *ast.UnaryExpr:
				if x.Op == token.AND {
					if o := objOf(x.X); o != nil {
						opaque[o] = true
					}
				}
			case *ast.RangeStmt:
				for _, e := range []ast.Expr{x.Key, x.Value} {
					if e != nil {
						if o := objOf(e); o != nil {
							opaque[o] = true
						}
					}
				}
			}
			return true
		})
	}
	// `var x T` followed by exactly one `x = e` that is reached unconditionally
	// from the declaration (only plain blocks in between) with no read of x
	// before it: e is x's definition. (This is what expanding a helper in place
	// leaves: the result variables are declared first, the body assigns them.)
	if len(reassign) > 0 {
		parent := map[ast.Node]ast.Node{}
		for _, f := range files {
			var stack []ast.Node
			ast.Inspect(f, func(n ast.Node) bool {
				if n == nil {
					stack = stack[:len(stack)-1]
					return true
				}
				if len(stack) > 0 {
					parent[n] = stack[len(stack)-1]
				}
				stack = append(stack, n)
				return true
			})
		}
		for o, rs := range reassign {
			vs := zeroDecl[o]
			if vs == nil || len(rs) != 1 || opaque[o] {
				opaque[o] = true
				continue
			}
			r := rs[0]
			// the block that holds the declaration
			var declBlock ast.Node
			for n := ast.Node(vs); n != nil; n = parent[n] {
				if _, isDS := n.(*ast.DeclStmt); isDS {
					declBlock = parent[n]
					break
				}
			}
			ok := declBlock != nil
			for n := parent[ast.Node(r.as)]; ok && n != declBlock; n = parent[n] {
				if _, isBlk := n.(*ast.BlockStmt); !isBlk || n == nil {
					ok = false
				}
			}
			if ok {
				// no read between the declaration and the assignment, none inside the right-hand side
				ast.Inspect(declBlock, func(n ast.Node) bool {
					id, isId := n.(*ast.Ident)
					if !isId || info.Uses[id] != o {
						return true
					}
					if id.Pos() > vs.End() && id.Pos() < r.as.End() {
						// the left-hand side itself, or `_ = x`
						if pa, isAs := parent[id].(*ast.AssignStmt); isAs {
							if pa == r.as {
								for _, l := range pa.Lhs {
									if l == ast.Expr(id) {
										return true
									}
								}
							} else if len(pa.Lhs) == 1 && len(pa.Rhs) == 1 && pa.Rhs[0] == ast.Expr(id) {
								if b, isB := pa.Lhs[0].(*ast.Ident); isB && b.Name == "_" {
									return true
								}
							}
						}
						ok = false
					}
					return true
				})
			}
			if !ok {
				opaque[o] = true
				continue
			}
			if len(r.as.Lhs) == len(r.as.Rhs) {
				def[o] = r.as.Rhs[r.i]
			} else if call, isCall := ast.Unparen(r.as.Rhs[0]).(*ast.CallExpr); isCall && len(r.as.Rhs) == 1 {
				tdef[o] = TupleDef{call, r.i}
			} else {
				opaque[o] = true
			}
		}
	}
	for o := range opaque {
		unstableVars[o] = true
	}
	for o := range reassign {
		if _, ok := def[o]; !ok || opaque[o] {
			unstableVars[o] = true
		}
	}
	for o := range zeroDecl {
		if _, has := reassign[o]; !has {
			opaque[o] = true // declared without a value and never plainly assigned: not a definition
		}
	}
	for o, e := range def {
		v, ok := o.(*types.Var)
		if !ok || v.IsField() || v.Parent() == nil || v.Pkg() == nil || v.Parent() == v.Pkg().Scope() {
			continue // only function-local variables
		}
		if count[o] == 1 && !opaque[o] {
			localDefs[o] = e
		}
	}
	for o, td := range tdef {
		v, ok := o.(*types.Var)
		if !ok || v.IsField() || v.Parent() == nil || v.Pkg() == nil || v.Parent() == v.Pkg().Scope() {
			continue
		}
		if count[o] == 1 && !opaque[o] {
			tupleDefs[o] = td
		}
	}
}

// TupleDefOf returns the call and result index that define a local which is
// assigned exactly once, by `a, b, c := f(...)`.
func TupleDefOf(info *types.Info, e ast.Expr) (TupleDef, bool) {
	id, ok := e.(*ast.Ident)
	if !ok || info == nil {
		return TupleDef{}, false
	}
	td, ok := tupleDefs[info.Uses[id]]
	return td, ok
}

// DefOf returns the defining expression of a transparent local, or nil.
func DefOf(info *types.Info, e ast.Expr) ast.Expr {
	id, ok := e.(*ast.Ident)
	if !ok || info == nil {
		return nil
	}
	o := info.Uses[id]
	if o == nil {
		return nil
	}
	return localDefs[o]
}

// Binds maps metavariable names to matched nodes.
type Binds map[string]ast.Node

// Pattern is a compiled pattern.
type Pattern struct {
	src  string
	node ast.Node
}

// Expr compiles an expression pattern.
func Expr(src string) *Pattern {
	e, err := parser.ParseExpr(src)
	if err != nil {
		panic(fmt.Sprintf("pat: bad expression pattern %q: %v", src, err))
	}
	return &Pattern{src, e}
}

// Stmt compiles a single-statement pattern.
func Stmt(src string) *Pattern {
	f, err := parser.ParseFile(token.NewFileSet(), "p.go", "package p\nfunc _() {\n"+src+"\n}", 0)
	if err != nil {
		panic(fmt.Sprintf("pat: bad statement pattern %q: %v", src, err))
	}
	body := f.Decls[0].(*ast.FuncDecl).Body.List
	if len(body) != 1 {
		panic(fmt.Sprintf("pat: statement pattern %q must be one statement", src))
	}
	return &Pattern{src, body[0]}
}

func (p *Pattern) String() string { return p.src }

// Match matches node n against the pattern, extending b (which may be nil).
// It returns the bindings on success and nil on failure.
func (p *Pattern) Match(info *types.Info, n ast.Node, b Binds) Binds {
	nb := Binds{}
	for k, v := range b {
		nb[k] = v
	}
	m := &matcher{info: info, b: nb}
	if m.match(p.node, n) {
		return m.b
	}
	return nil
}

// Find returns the first sub-node of root (not descending into function
// literals unless root is one) matching the pattern, with its bindings.
func (p *Pattern) Find(info *types.Info, root ast.Node, b Binds) (ast.Node, Binds) {
	var hit ast.Node
	var hb Binds
	ast.Inspect(root, func(n ast.Node) bool {
		if n == nil || hit != nil {
			return false
		}
		if _, ok := n.(*ast.FuncLit); ok && n != root {
			return false
		}
		if !compatible(p.node, n) {
			return true
		}
		if r := p.Match(info, n, b); r != nil {
			hit, hb = n, r
			return false
		}
		return true
	})
	return hit, hb
}

// FindAll returns all matching sub-nodes.
func (p *Pattern) FindAll(info *types.Info, root ast.Node, b Binds) []ast.Node {
	var out []ast.Node
	ast.Inspect(root, func(n ast.Node) bool {
		if n == nil {
			return false
		}
		if _, ok := n.(*ast.FuncLit); ok && n != root {
			return false
		}
		if compatible(p.node, n) && p.Match(info, n, b) != nil {
			out = append(out, n)
		}
		return true
	})
	return out
}

func compatible(p, n ast.Node) bool {
	_, pe := p.(ast.Expr)
	_, ne := n.(ast.Expr)
	_, ps := p.(ast.Stmt)
	_, ns := n.(ast.Stmt)
	return pe && ne || ps && ns
}

type matcher struct {
	info  *types.Info
	b     Binds
	depth int
}

func isMeta(id *ast.Ident) bool {
	return len(id.Name) >= 2 && id.Name[0] == '_' && id.Name[1] != '_'
}

func unparen(n ast.Node) ast.Node {
	for {
		p, ok := n.(*ast.ParenExpr)
		if !ok {
			return n
		}
		n = p.X
	}
}

var commutative = map[token.Token]bool{token.ADD: true, token.MUL: true, token.AND: true, token.OR: true, token.XOR: true,
	token.EQL: true, token.NEQ: true, token.LAND: true, token.LOR: true}
var mirrored = map[token.Token]token.Token{token.LSS: token.GTR, token.GTR: token.LSS, token.LEQ: token.GEQ, token.GEQ: token.LEQ}

func (m *matcher) match(p, n ast.Node) bool {
	if isNilNode(p) || isNilNode(n) {
		return isNilNode(p) && isNilNode(n)
	}
	p, n = unparen(p), unparen(n)
	if id, ok := p.(*ast.Ident); ok {
		if id.Name == "_" {
			return true
		}
		if isMeta(id) {
			if prev, ok := m.b[id.Name]; ok {
				return Same(m.info, prev, n)
			}
			m.b[id.Name] = n
			return true
		}
		nid, ok := n.(*ast.Ident)
		return ok && nid.Name == id.Name
	}
	// statement-level metavariable: an expression statement consisting of a
	// metavariable matches any statement
	if es, ok := p.(*ast.ExprStmt); ok {
		if id, ok := es.X.(*ast.Ident); ok && (isMeta(id) || id.Name == "_") {
			if _, isStmt := n.(ast.Stmt); isStmt {
				if id.Name != "_" {
					m.b[id.Name] = n
				}
				return true
			}
		}
	}
	// a literal in the pattern matches any constant expression of equal value
	// (named constants, other spellings of the number)
	if bl, ok := p.(*ast.BasicLit); ok && m.info != nil && (bl.Kind == token.INT || bl.Kind == token.CHAR || bl.Kind == token.STRING) {
		if ne, ok := n.(ast.Expr); ok {
			if tv, ok := m.info.Types[ne]; ok && tv.Value != nil {
				pv := constant.MakeFromLiteral(bl.Value, bl.Kind, 0)
				if pv.Kind() == constant.String {
					return tv.Value.Kind() == constant.String && constant.StringVal(pv) == constant.StringVal(tv.Value)
				}
				if nv := constant.ToInt(tv.Value); nv.Kind() == constant.Int && constant.ToInt(pv).Kind() == constant.Int {
					return constant.Compare(constant.ToInt(pv), token.EQL, nv)
				}
			}
		}
	}
	if reflect.TypeOf(p) != reflect.TypeOf(n) {
		// a structured pattern against a transparent local: match its definition
		if id, ok := n.(*ast.Ident); ok && m.depth < 4 {
			if _, pIsExpr := p.(ast.Expr); pIsExpr {
				if d := DefOf(m.info, id); d != nil {
					m.depth++
					ok := m.match(p, d)
					m.depth--
					return ok
				}
			}
		}
		return false
	}
	switch x := p.(type) {
	case *ast.BasicLit:
		y := n.(*ast.BasicLit)
		return x.Kind == y.Kind && x.Value == y.Value
	case *ast.SelectorExpr:
		y := n.(*ast.SelectorExpr)
		return m.match(x.Sel, y.Sel) && m.match(x.X, y.X)
	case *ast.StarExpr:
		return m.match(x.X, n.(*ast.StarExpr).X)
	case *ast.UnaryExpr:
		y := n.(*ast.UnaryExpr)
		return x.Op == y.Op && m.match(x.X, y.X)
	case *ast.BinaryExpr:
		y := n.(*ast.BinaryExpr)
		if x.Op == y.Op {
			save := m.snapshot()
			if m.match(x.X, y.X) && m.match(x.Y, y.Y) {
				return true
			}
			m.b = save
			if commutative[x.Op] {
				if m.match(x.X, y.Y) && m.match(x.Y, y.X) {
					return true
				}
				m.b = save
			}
			return false
		}
		if mirrored[x.Op] == y.Op && y.Op != 0 {
			save := m.snapshot()
			if m.match(x.X, y.Y) && m.match(x.Y, y.X) {
				return true
			}
			m.b = save
		}
		return false
	case *ast.CallExpr:
		y := n.(*ast.CallExpr)
		if !m.match(x.Fun, y.Fun) {
			return false
		}
		// a trailing `_rest...` metavariable swallows remaining arguments
		if k := len(x.Args); k > 0 && x.Ellipsis.IsValid() {
			if id, ok := x.Args[k-1].(*ast.Ident); ok && (isMeta(id) || id.Name == "_") {
				if len(y.Args) < k-1 {
					return false
				}
				for i := 0; i < k-1; i++ {
					if !m.match(x.Args[i], y.Args[i]) {
						return false
					}
				}
				return true
			}
		}
		if len(x.Args) != len(y.Args) {
			return false
		}
		for i := range x.Args {
			if !m.match(x.Args[i], y.Args[i]) {
				return false
			}
		}
		return true
	case *ast.IndexExpr:
		y := n.(*ast.IndexExpr)
		return m.match(x.X, y.X) && m.match(x.Index, y.Index)
	case *ast.SliceExpr:
		y := n.(*ast.SliceExpr)
		return m.match(x.X, y.X) && m.matchOpt(x.Low, y.Low) && m.matchOpt(x.High, y.High) && m.matchOpt(x.Max, y.Max)
	case *ast.TypeAssertExpr:
		y := n.(*ast.TypeAssertExpr)
		return m.match(x.X, y.X) && m.matchOpt(x.Type, y.Type)
	case *ast.CompositeLit:
		y := n.(*ast.CompositeLit)
		if !m.matchOpt(x.Type, y.Type) || len(x.Elts) != len(y.Elts) {
			return false
		}
		// keyed struct literals match by field name, in any order
		keyed := len(x.Elts) > 0
		for _, e := range x.Elts {
			kv, ok := e.(*ast.KeyValueExpr)
			if !ok {
				keyed = false
				break
			}
			if _, ok := kv.Key.(*ast.Ident); !ok {
				keyed = false
			}
		}
		if keyed {
			byKey := map[string]ast.Expr{}
			for _, e := range y.Elts {
				kv, ok := e.(*ast.KeyValueExpr)
				if !ok {
					return false
				}
				id, ok := kv.Key.(*ast.Ident)
				if !ok {
					return false
				}
				byKey[id.Name] = kv.Value
			}
			for _, e := range x.Elts {
				kv := e.(*ast.KeyValueExpr)
				v, ok := byKey[kv.Key.(*ast.Ident).Name]
				if !ok || !m.match(kv.Value, v) {
					return false
				}
			}
			return true
		}
		for i := range x.Elts {
			if !m.match(x.Elts[i], y.Elts[i]) {
				return false
			}
		}
		return true
	case *ast.KeyValueExpr:
		y := n.(*ast.KeyValueExpr)
		return m.match(x.Key, y.Key) && m.match(x.Value, y.Value)
	case *ast.ArrayType:
		y := n.(*ast.ArrayType)
		return m.matchOpt(x.Len, y.Len) && m.match(x.Elt, y.Elt)
	case *ast.InterfaceType:
		y := n.(*ast.InterfaceType)
		return (x.Methods == nil || len(x.Methods.List) == 0) == (y.Methods == nil || len(y.Methods.List) == 0)
	case *ast.MapType:
		y := n.(*ast.MapType)
		return m.match(x.Key, y.Key) && m.match(x.Value, y.Value)
	case *ast.ExprStmt:
		return m.match(x.X, n.(*ast.ExprStmt).X)
	case *ast.IncDecStmt:
		y := n.(*ast.IncDecStmt)
		return x.Tok == y.Tok && m.match(x.X, y.X)
	case *ast.AssignStmt:
		y := n.(*ast.AssignStmt)
		// := and = are interchangeable in patterns written with =
		if x.Tok != y.Tok && !(x.Tok == token.ASSIGN && y.Tok == token.DEFINE) {
			return false
		}
		if len(x.Lhs) != len(y.Lhs) || len(x.Rhs) != len(y.Rhs) {
			return false
		}
		for i := range x.Lhs {
			if !m.match(x.Lhs[i], y.Lhs[i]) {
				return false
			}
		}
		for i := range x.Rhs {
			if !m.match(x.Rhs[i], y.Rhs[i]) {
				return false
			}
		}
		return true
	case *ast.ReturnStmt:
		y := n.(*ast.ReturnStmt)
		if len(x.Results) != len(y.Results) {
			return false
		}
		for i := range x.Results {
			if !m.match(x.Results[i], y.Results[i]) {
				return false
			}
		}
		return true
	case *ast.SendStmt:
		y := n.(*ast.SendStmt)
		return m.match(x.Chan, y.Chan) && m.match(x.Value, y.Value)
	case *ast.DeferStmt:
		return m.match(x.Call, n.(*ast.DeferStmt).Call)
	case *ast.GoStmt:
		return m.match(x.Call, n.(*ast.GoStmt).Call)
	case *ast.BranchStmt:
		y := n.(*ast.BranchStmt)
		return x.Tok == y.Tok
	}
	return false
}

func (m *matcher) matchOpt(p, n ast.Expr) bool {
	if p == nil || n == nil {
		return p == nil && n == nil
	}
	return m.match(p, n)
}

func isNilNode(n ast.Node) bool {
	if n == nil {
		return true
	}
	v := reflect.ValueOf(n)
	return v.Kind() == reflect.Ptr && v.IsNil()
}

func (m *matcher) snapshot() Binds {
	s := Binds{}
	for k, v := range m.b {
		s[k] = v
	}
	return s
}

// Same reports whether two sub-trees denote the same thing: identical
// structure, identifiers resolving to the same object (or, when unresolved,
// the same name).
func Same(info *types.Info, a, b ast.Node) bool {
	if isNilNode(a) || isNilNode(b) {
		return isNilNode(a) && isNilNode(b)
	}
	a, b = unparen(a), unparen(b)
	if reflect.TypeOf(a) != reflect.TypeOf(b) {
		return false
	}
	switch x := a.(type) {
	case *ast.Ident:
		y := b.(*ast.Ident)
		ox, oy := obj(info, x), obj(info, y)
		if ox != nil || oy != nil {
			return ox == oy || ox != nil && oy != nil && aliasRoot(info, ox) == aliasRoot(info, oy)
		}
		return x.Name == y.Name
	case *ast.BasicLit:
		y := b.(*ast.BasicLit)
		return x.Kind == y.Kind && x.Value == y.Value
	case *ast.SelectorExpr:
		y := b.(*ast.SelectorExpr)
		return Same(info, x.Sel, y.Sel) && Same(info, x.X, y.X)
	case *ast.StarExpr:
		return Same(info, x.X, b.(*ast.StarExpr).X)
	case *ast.UnaryExpr:
		y := b.(*ast.UnaryExpr)
		return x.Op == y.Op && Same(info, x.X, y.X)
	case *ast.BinaryExpr:
		y := b.(*ast.BinaryExpr)
		return x.Op == y.Op && Same(info, x.X, y.X) && Same(info, x.Y, y.Y)
	case *ast.CallExpr:
		y := b.(*ast.CallExpr)
		if !Same(info, x.Fun, y.Fun) || len(x.Args) != len(y.Args) {
			return false
		}
		for i := range x.Args {
			if !Same(info, x.Args[i], y.Args[i]) {
				return false
			}
		}
		return true
	case *ast.IndexExpr:
		y := b.(*ast.IndexExpr)
		return Same(info, x.X, y.X) && Same(info, x.Index, y.Index)
	case *ast.SliceExpr:
		y := b.(*ast.SliceExpr)
		return Same(info, x.X, y.X) && Same(info, x.Low, y.Low) && Same(info, x.High, y.High) && Same(info, x.Max, y.Max)
	}
	return false
}

// aliasRoot follows `x := y` definitions of transparent locals to the variable
// they name, as long as that variable is never written after its definition.
func aliasRoot(info *types.Info, o types.Object) types.Object {
	for i := 0; i < 6; i++ {
		d, ok := localDefs[o]
		if !ok {
			return o
		}
		id, isId := unparen(d).(*ast.Ident)
		if !isId {
			return o
		}
		t, isVar := obj(info, id).(*types.Var)
		if !isVar || unstableVars[t] || t.IsField() {
			return o
		}
		if t.Parent() != nil && t.Pkg() != nil && t.Parent() == t.Pkg().Scope() {
			return o // a package-level variable may change behind the function's back
		}
		o = t
	}
	return o
}

func obj(info *types.Info, id *ast.Ident) types.Object {
	if info == nil {
		return nil
	}
	if o := info.Uses[id]; o != nil {
		return o
	}
	return info.Defs[id]
}

// Any reports whether any of the patterns matches n.
func Any(info *types.Info, n ast.Node, b Binds, ps ...*Pattern) Binds {
	for _, p := range ps {
		if r := p.Match(info, n, b); r != nil {
			return r
		}
	}
	return nil
}

// Describe lists pattern sources (for messages).
func Describe(ps ...*Pattern) string {
	var s []string
	for _, p := range ps {
		s = append(s, "`"+p.src+"`")
	}
	return strings.Join(s, " or ")
}
